#!/usr/bin/env python3
"""Regenerates MANIFEST.json from lib/vtable.py (so the two cannot drift apart)."""
import json, os, sys
ROOT = os.path.dirname(os.path.dirname(os.path.abspath(__file__)))
sys.path.insert(0, os.path.join(ROOT, "lib"))
from vtable import PROPS, HOOK_COMMITS, NOT_APPLICABLE
props = [json.loads(l) for l in open(os.path.join(ROOT, "properties.jsonl"))]
checks = []
na = []
for p in props:
    pid = p["id"]
    if pid in PROPS:
        P = PROPS[pid]
        checks.append({
            "property_id": pid,
            "quick_cmd": "./check %s --tier quick" % pid,
            "thorough_cmd": "./check %s --tier thorough" % pid,
            "evidence_file": "/verif/evidence/%s.json" % pid,
            "replay_cmd_template": "./check replay {path}",
            "engine": "xsimd-monitors",
            "level_claimed": {"category": P.get("level", "exploration"), "text": P["level_text"], "design_ref": P.get("design_ref", "DESIGN.md section 6")},
            "level_note": P["level_note"],
            "technique": P["technique"],
        })
    else:
        na.append({"property_id": pid, "reason": NOT_APPLICABLE.get(pid, "check not built yet in this round; no claim is made")})
m = {
    "version": 1,
    "setup_cmd": "./check build-all --tier quick",
    "hooks": {"guard": "XSIMD_VERIF", "enable": "every harness unit is compiled with -DXSIMD_VERIF against /repo/include (lib/vtable.py VARIANTS)",
              "baseline_off_cmd": "./check baseline-off", "source_commits": HOOK_COMMITS, "add_only": True},
    "engines": [{"name": "xsimd-monitors", "path": "/verif/check", "serves_properties": [c["property_id"] for c in checks],
                 "kind_free_text": "runtime monitoring: per-architecture harness units run the real kernels on hostile workloads; reference-model oracles, guard pages, "
                                   "sanitizers, iteration-count hooks and watchdogs observe every execution (DESIGN.md sections 1-2)"}],
    "checks": checks,
    "not_applicable": na,
    "notes": "All checks rebuild from /repo's working tree (content-hash keyed build cache under /verif/build). known_findings.json lists open findings and fixed: entries.",
}
json.dump(m, open(os.path.join(ROOT, "MANIFEST.json"), "w"), indent=1)
print("checks:", len(checks), "not_applicable:", len(na))
