#!/bin/bash
# usage: confirm_seeded.sh <dir with patch.diff demo.cpp>  -> writes <dir>/confirm.log
# Confirms in a scratch worktree of /repo HEAD: patch applies and compiles, the repository's test-suite
# still passes with it, the demonstration passes without the patch and fails with it.
d=$1; name=$(echo $d | tr '/' '_'); wt=/tmp/wt/confirm_$name
log=$d/confirm.log; : > $log
git -C /repo worktree remove --force $wt 2>/dev/null; rm -rf $wt
git -C /repo worktree add -q --detach $wt ${BASE:-HEAD} || exit 2
echo "HEAD $(git -C /repo log --format=%h -1 ${BASE:-HEAD})" >> $log
cmdline=$(grep -m1 -E "g\+\+|clang\+\+" $d/demo.cpp | sed -e 's#^[ /*]*##')
# normalise the include path of the demo's compile command to this worktree
build_demo(){ eval "$(echo "$cmdline" | sed -E "s#-I *[^ ]*/include#-I$wt/include#; s#[^ ]*demo.cpp#$d/demo.cpp#; s#-o +[^ ]+#-o $wt/demo_bin#")" >> $log 2>&1; }
echo "demo cmd: $cmdline" >> $log
build_demo; $wt/demo_bin > /dev/null 2>&1; echo "demo_without_patch rc=$?" >> $log
git -C $wt apply $d/patch.diff || { echo "APPLY FAILED" >> $log; exit 2; }
build_demo; $wt/demo_bin > $wt/demo.out 2>&1; echo "demo_with_patch rc=$? $(head -2 $wt/demo.out | tr '\n' ' ')" >> $log
(cd $wt && cmake -G Ninja -S . -B _build -DBUILD_TESTS=ON -DCMAKE_BUILD_TYPE=RelWithDebInfo -DCMAKE_CXX_FLAGS=-Wno-error >/dev/null && cmake --build _build -j16 2>&1 | tail -1 >> $log && ./_build/test/test_xsimd | tail -3 >> $log)
git -C /repo worktree remove --force $wt
echo done >> $log
