#!/bin/bash
# usage: process_seed.sh <dir with patch.diff demo.cpp notes.md> <check id> [more ids]
# confirm in a scratch worktree (test-suite + demo with/without), then run the quick checks on a patched scratch tree.
d=$1; shift
here=$(dirname "$0")
( flock 9
  $here/confirm_seeded.sh $d
  $here/try_seeded_alt.sh $d/patch.diff "$@" > $d/try.log 2>&1
) 9>/tmp/wt/.process_seed.lock
echo "=== $d"; grep -E "demo_|test cases|APPLY" $d/confirm.log; cat $d/try.log
