#!/bin/bash
# usage: try_seeded.sh <patch> <check id> [more check ids]   -- applies a seeded patch to /repo, runs checks, restores /repo
patch=$1; shift
cd /repo || exit 2
if ! git diff --quiet -- include; then echo "repo include tree dirty"; exit 2; fi
git apply "$patch" || { echo "APPLY FAILED $patch"; exit 2; }
for id in "$@"; do
  echo "=== $patch :: $id"
  (cd /verif && ./check $id 2>&1 | grep -E "VIOLATION|KNOWN-FINDING|INCONCLUSIVE|^\[C|witness" | cut -c1-260 | head -12)
done
git checkout -- include
