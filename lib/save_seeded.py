#!/usr/bin/env python3
"""save_seeded.py <src dir> <name> <property> <detected: yes|no> "<check output summary>" "<needs>"  -> /verif/seeded/<name>/"""
import sys, os, shutil, json
src, name, prop, detected, summary, needs = sys.argv[1:7]
dst = os.path.join("/verif/seeded", name)
os.makedirs(dst, exist_ok=True)
for f in ("patch.diff", "demo.cpp", "notes.md", "confirm.log"):
    if os.path.exists(os.path.join(src, f)):
        shutil.copy(os.path.join(src, f), os.path.join(dst, f))
conf = open(os.path.join(src, "confirm.log")).read() if os.path.exists(os.path.join(src, "confirm.log")) else ""
meta = {
    "property": prop,
    "origin": "independent sub-agent given only the property text and a scratch worktree",
    "needs_to_manifest": needs,
    "confirmed_in_scratch_worktree": {
        "repo_head": (conf.split("\n")[0] if conf else ""),
        "test_suite_with_patch": [l for l in conf.split("\n") if "test cases" in l][:1],
        "demo_without_patch": [l for l in conf.split("\n") if l.startswith("demo_without_patch")][:1],
        "demo_with_patch": [l[:300] for l in conf.split("\n") if l.startswith("demo_with_patch")][:1],
    },
    "ran": ["lib/confirm_seeded.sh (scratch worktree: apply, build and run the repository test-suite, build and run demo with/without)",
            "lib/try_seeded.sh <patch> %s (git -C /repo apply; ./check %s --tier quick; git -C /repo checkout -- include)" % (prop, prop)],
    "detected_by_quick_check": detected == "yes",
    "check_output": summary,
}
json.dump(meta, open(os.path.join(dst, "meta.json"), "w"), indent=1)
print("saved", dst)
