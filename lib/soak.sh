#!/bin/bash
# usage: [CHECKS="C01 C05"] soak.sh <tier> <seed>...   runs every check under each seed; prints one line per run; non-zero if any run is not silent
tier=$1; shift
cd "$(dirname "$0")/.."
rc=0
for seed in "$@"; do
  for id in ${CHECKS:-$(python3 -c "import json;print(' '.join(c['property_id'] for c in json.load(open('MANIFEST.json'))['checks']))")}; do
    out=$(VERIF_SEED=$seed ./check $id --tier $tier 2>&1)
    code=$?
    line=$(echo "$out" | grep -E "^\[$id\]" | tail -1)
    echo "seed=$seed $id exit=$code ${line:-NO SUMMARY}"
    if [ $code -ne 0 ]; then rc=1; echo "$out" | grep -E "VIOLATION|INCONCLUSIVE|witness" | head -5 | cut -c1-300; fi
  done
done
exit $rc
