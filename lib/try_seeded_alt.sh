#!/bin/bash
# usage: try_seeded_alt.sh <patch> <check id>...   -- same as try_seeded.sh but on a scratch worktree of /repo HEAD
# (VERIF_REPO; optional ARCHS=a,b restricts the architectures to save build time), so that /repo itself stays untouched and other checks can run meanwhile.
patch=$1; shift
name=$(echo "$patch" | md5sum | cut -c1-8)
wt=/tmp/wt/alt_$name
git -C /repo worktree remove --force $wt 2>/dev/null; rm -rf $wt
git -C /repo worktree add -q --detach $wt ${BASE:-HEAD} || exit 2
git -C $wt apply "$patch" || { echo "APPLY FAILED $patch"; git -C /repo worktree remove --force $wt; exit 2; }
for id in "$@"; do
  echo "=== $patch :: $id"
  (cd /verif && VERIF_REPO=$wt ./check $id ${ARCHS:+--arch $ARCHS} 2>&1 | grep -E "VIOLATION|KNOWN-FINDING|INCONCLUSIVE|^\[C|witness" | cut -c1-300 | head -14)
done
alt=$(python3 -c "import hashlib,os;print('alt-'+hashlib.sha256(os.path.realpath('$wt').encode()).hexdigest()[:8])")
rm -rf /verif/build/$alt /verif/out/$alt
git -C /repo worktree remove --force $wt
