"""Static tables: architectures, build variants, units, properties."""

AVX512_BASE = ["-mavx512f"]
ARCHS = {
    "sse2": {"type": "xsimd::sse2", "flags": ["-msse2"]},
    "sse3": {"type": "xsimd::sse3", "flags": ["-msse3"]},
    "ssse3": {"type": "xsimd::ssse3", "flags": ["-mssse3"]},
    "sse4_1": {"type": "xsimd::sse4_1", "flags": ["-msse4.1"]},
    "sse4_2": {"type": "xsimd::sse4_2", "flags": ["-msse4.2"]},
    "fma3_sse42": {"type": "xsimd::fma3<xsimd::sse4_2>", "flags": ["-msse4.2", "-mfma"]},
    "avx": {"type": "xsimd::avx", "flags": ["-mavx"]},
    "fma3_avx": {"type": "xsimd::fma3<xsimd::avx>", "flags": ["-mavx", "-mfma"]},
    "avx2": {"type": "xsimd::avx2", "flags": ["-mavx2"]},
    "fma3_avx2": {"type": "xsimd::fma3<xsimd::avx2>", "flags": ["-mavx2", "-mfma"]},
    "avxvnni": {"type": "xsimd::avxvnni", "flags": ["-mavx2", "-mavxvnni"]},
    "avx512f": {"type": "xsimd::avx512f", "flags": ["-mavx512f"]},
    "avx512cd": {"type": "xsimd::avx512cd", "flags": ["-mavx512f", "-mavx512cd"]},
    "avx512dq": {"type": "xsimd::avx512dq", "flags": ["-mavx512f", "-mavx512cd", "-mavx512dq"]},
    "avx512bw": {"type": "xsimd::avx512bw", "flags": ["-mavx512f", "-mavx512cd", "-mavx512dq", "-mavx512bw"]},
    "avx512ifma": {"type": "xsimd::avx512ifma", "flags": ["-mavx512f", "-mavx512cd", "-mavx512dq", "-mavx512bw", "-mavx512ifma"]},
    "avx512vbmi": {"type": "xsimd::avx512vbmi", "flags": ["-mavx512f", "-mavx512cd", "-mavx512dq", "-mavx512bw", "-mavx512ifma", "-mavx512vbmi"]},
    "avx512vbmi2": {"type": "xsimd::avx512vbmi2", "flags": ["-mavx512f", "-mavx512cd", "-mavx512dq", "-mavx512bw", "-mavx512ifma", "-mavx512vbmi", "-mavx512vbmi2"]},
    "avx512vnni_bw": {"type": "xsimd::avx512vnni<xsimd::avx512bw>", "flags": ["-mavx512f", "-mavx512cd", "-mavx512dq", "-mavx512bw", "-mavx512vnni"]},
    "avx512vnni_vbmi2": {"type": "xsimd::avx512vnni<xsimd::avx512vbmi2>",
                         "flags": ["-mavx512f", "-mavx512cd", "-mavx512dq", "-mavx512bw", "-mavx512ifma", "-mavx512vbmi", "-mavx512vbmi2", "-mavx512vnni"]},
    "emu128": {"type": "xsimd::emulated<128>", "flags": ["-msse2", "-DXSIMD_WITH_EMULATED=1"]},
    "emu256": {"type": "xsimd::emulated<256>", "flags": ["-msse2", "-DXSIMD_WITH_EMULATED=1"]},
}

# Build variants.  "min": g++ -O2, asserts on, only the arch's minimal -m flags.
SAN_FATAL = "bounds,alignment,null,bool,enum,vla-bound,unreachable,return,shift-exponent,pointer-overflow,integer-divide-by-zero"
VARIANTS = {
    "min": {"cxx": "g++", "flags": ["-O2", "-DXSIMD_VERIF"]},
    "ndebug": {"cxx": "g++", "flags": ["-O2", "-DNDEBUG", "-DXSIMD_VERIF"]},
    "native": {"cxx": "g++", "flags": ["-O2", "-DXSIMD_VERIF"], "native": True},
    "clang": {"cxx": "clang++-14", "flags": ["-O2", "-DXSIMD_VERIF"]},
    "asan": {"cxx": "g++", "sanitizer": True,
             "flags": ["-O1", "-g", "-fno-omit-frame-pointer", "-DXSIMD_VERIF", "-fsanitize=address,undefined", "-fno-sanitize-recover=" + SAN_FATAL]},
    "asan-clang": {"cxx": "clang++-14", "sanitizer": True,
                   "flags": ["-O1", "-g", "-fno-omit-frame-pointer", "-DXSIMD_VERIF", "-fsanitize=address,undefined", "-fno-sanitize=object-size",
                             "-fno-sanitize-recover=" + SAN_FATAL]},
}

UNITS = {
    "c01": {"kind": "exe", "src": ["units/c01_int_arith.cpp"]},
    "c03": {"kind": "exe", "src": ["units/c03_compare_mask.cpp"]},
    "c07": {"kind": "exe", "src": ["units/c07_int_bits.cpp"]},
    "c06": {"kind": "exe", "src": ["units/c06_convert.cpp"], "aux": {"ref": {"src": "common/ref.cpp", "flags": ["-ffp-contract=off", "-fno-builtin"]}}, "link": ["ref"]},
    "c09": {"kind": "exe", "src": ["units/c09_reduce.cpp"]},
    "c05": {"kind": "exe", "src": ["units/c05_data_movement.cpp"]},
    "c05full": {"kind": "exe", "src": ["units/c05_data_movement.cpp"], "flags": ["-DVH_MASKS_FULL"]},
    "c04": {"kind": "exe", "src": ["units/c04_memory.cpp"]},
    "c19": {"kind": "exe", "src": ["units/c19_constants.cpp"]},
    "c20": {"kind": "exe", "src": ["units/c20_geometry.cpp"]},
    "c15": {"kind": "exe", "src": ["units/c15_cpuid_dispatch.cpp"]},
    "c18": {"kind": "exe", "src": ["units/c18_allocator.cpp"],
            "flags": ["-Wl,--wrap=posix_memalign,--wrap=malloc,--wrap=calloc,--wrap=aligned_alloc,--wrap=memalign,--wrap=free"]},  # heap-conservation monitor
    "math": {"kind": "so", "src": ["math/unit_math.cpp"], "runner": "math_runner",
             "aux": {"math_runner": {"src": "math/math_runner.cpp", "obj": False, "flags": ["-ffp-contract=off"], "libs": ["-ldl", "-lquadmath", "-lpthread"]}}},
    "c16": {"kind": "exe", "src": ["units/c16_complex.cpp"]},
    "c17": {"kind": "exe", "src": ["units/c17_scalar.cpp"], "aux": {"ref": {"src": "common/ref.cpp", "flags": ["-ffp-contract=off", "-fno-builtin"]}}, "link": ["ref"]},
    "c02": {"kind": "exe", "src": ["units/c02_fp_basic.cpp"], "aux": {"ref": {"src": "common/ref.cpp", "flags": ["-ffp-contract=off", "-fno-builtin"]}}, "link": ["ref"]},
}
ALL22 = "every architecture this CPU executes: 20 x86 (sse2 ... avx512vnni<avx512vbmi2>) + emulated<128>, emulated<256>"
COMMON_ASSUME = [
    "the sandbox CPU executes each instruction set as specified; architectures it cannot execute (fma4, avx512er/pf, NEON, SVE, RVV, WASM) are not observed",
    "g++ 12 -O2 with each architecture's minimal -m flags is the observed compilation (thorough tier adds -march=native, -DNDEBUG, clang and sanitizer builds)",
    "held on the executions observed, not a proof",
]

HOOK_COMMITS = ["8c68c89", "646c7e4"]  # cpuid/xgetbv source + cache bypass; gamma loop iteration counter
NOT_APPLICABLE = {}

PROPS = {
    "C01": {
        "technique": "runtime monitoring: reference-model oracle (128-bit integer model) on every lane of real kernel executions, 22 architectures",
        "level_text": "Every lane of every integer arithmetic kernel call observed is compared bit-exactly with an independent 128-bit integer model, on all 22 "
                      "executable architectures, over boundary-lattice, random-bit and witness-lane workloads plus exhaustive 8-bit (and, thorough, 16-bit) operand pairs. "
                      "Exploration is the honest level: 32/64-bit operand pairs are sampled, not enumerated.",
        "level_note": "Trusts the CPU, g++/clang code generation and the 128-bit reference arithmetic (itself UBSan-clean). Says nothing about ISAs this machine cannot execute.",
        "design_ref": "DESIGN.md section 6 C01, section 4",
        "jobs": [
            {"unit": "c01"},
            {"unit": "c01", "variant": "native", "tiers": ["thorough"], "args": ["--scale", "0.2"]},
            {"unit": "c01", "variant": "ndebug", "tiers": ["thorough"], "args": ["--scale", "0.2"]},
            {"unit": "c01", "variant": "clang", "tiers": ["thorough"], "args": ["--scale", "0.2"]},
            {"unit": "c01", "variant": "asan", "tiers": ["thorough"], "args": ["--scale", "0.01"],
             "env": {"ASAN_OPTIONS": "abort_on_error=0:detect_leaks=0", "UBSAN_OPTIONS": "print_stacktrace=0"}},
        ],
        "rule": "each evaluation = one lane of one op call compared bit-exactly with a 128-bit integer model; operands per lane drawn independently from "
                "a boundary lattice (0,+-1,MIN,MIN+1,MAX,2^k,2^k+-1,~2^k,small) and random bit patterns, a witness-lane sweep, and exhaustive 8-bit / "
                "(thorough: all 2^32; quick: 1/127 strided) 16-bit operand pairs; a distinct non-trivial cell = (op,type,arch,lane,class of each operand); " + ALL22,
        "assumptions": COMMON_ASSUME + ["div/mod only with divisor != 0 and not MIN/-1; avgr only when a+b >= 0"],
        "floor": {"quick": 10**7, "thorough": 10**9},
    },
    "C02": {
        "technique": "runtime monitoring: IEEE reference oracle (scalar hardware ops / libm in a separately compiled baseline TU) on every lane, 22 architectures",
        "level_text": "Every lane of every basic floating-point kernel call observed is compared bit-for-bit (any NaN = any NaN) with the scalar IEEE operation evaluated in an "
                      "independent -ffp-contract=off translation unit; fma family against {fused, unfused}; predicates against the mathematical predicate. float32 unary "
                      "operations are swept over all 2^32 patterns in the thorough tier (1/509 strided in quick). Binary operand pairs and doubles are sampled: exploration.",
        "level_note": "Trusts the scalar FPU/libm (sqrt, fma, nextafter, frexp, ldexp) as reference. Sign of zero is free only for min/max of +-0 and sign(); frexp, nextafter and "
                      "ldexp are compared bit for bit for every input and every exponent (open findings F31a/F31b); NaN payloads are not compared.",
        "design_ref": "DESIGN.md section 6 C02, section 4",
        "jobs": [
            {"unit": "c02"},
            {"unit": "c02", "variant": "native", "tiers": ["thorough"], "args": ["--scale", "0.2"]},
            {"unit": "c02", "variant": "ndebug", "tiers": ["thorough"], "args": ["--scale", "0.2"]},
            {"unit": "c02", "variant": "clang", "tiers": ["thorough"], "args": ["--scale", "0.2"]},
        ],
        "rule": "each evaluation = one lane of one op call compared with the scalar IEEE reference; operands per lane drawn independently from a special-value lattice "
                "(+-0,+-1,+-inf,NaN,+-MIN,+-denorm_min,+-MAX,halves,eps...), random bit patterns, moderate values, neighbourhoods of 2^mant, subnormals with random mantissa, "
                "related pairs (b within 2 ulp of a), a witness-lane sweep, and all/strided float32 patterns for unary ops; a distinct non-trivial cell = "
                "(op,type,arch,lane,class of each operand); " + ALL22,
        "assumptions": COMMON_ASSUME + ["sign of zero free where the property says so; NaN payload/sign not compared"],
        "floor": {"quick": 10**7, "thorough": 10**9},
    },
    "C03": {
        "technique": "runtime monitoring: scalar-predicate / Boolean-algebra oracle on every lane, each batch_bool read back three ways, exhaustive masks for <=16 lanes",
        "level_text": "Every comparison and batch_bool operation observed is compared per lane with the scalar predicate / Boolean function, reading each result through "
                      "store, mask() and get(i); all 2^size masks are enumerated for size <= 16 and all mask pairs for size <= 4 (quick) / <= 8 (thorough); select and the bool "
                      "round trips are compared bit-exactly. Operand values and masks of wider batches are sampled: exploration.",
        "level_note": "Trusts the compiler's scalar comparison semantics as the reference. Comparison operands for 32/64-bit and floating types are sampled.",
        "design_ref": "DESIGN.md section 6 C03",
        "jobs": [
            {"unit": "c03"},
            {"unit": "c16"},  # select on complex batches
            {"unit": "c03", "variant": "native", "tiers": ["thorough"], "args": ["--scale", "0.2"]},
            {"unit": "c03", "variant": "ndebug", "tiers": ["thorough"], "args": ["--scale", "0.2"]},
            {"unit": "c03", "variant": "clang", "tiers": ["thorough"], "args": ["--scale", "0.2"]},
        ],
        "rule": "each evaluation = one lane of one comparison / mask operation compared with the scalar model via store, mask() and get(i); operands from the hostile lattice "
                "(NaN, +-0, MIN, MAX, ...) with 25% of lanes forced equal; masks: independent random pairs, one-hot/all-but-one/prefix/suffix for every lane, all 2^size masks "
                "(size <= 16), all mask pairs (size <= 4 quick, <= 8 thorough); distinct cell = (op,type,arch,mask/operand class,lane,expected value); " + ALL22,
        "assumptions": COMMON_ASSUME + ["from_mask only with bits below size (documented precondition)"],
        "floor": {"quick": 10**7, "thorough": 10**8},
    },
    "C06": {
        "technique": "runtime monitoring: static_cast / memcmp oracle on every lane of every conversion API form; 32-bit sources exhaustive (thorough); 22 architectures",
        "level_text": "batch_cast, load_as, store_as, broadcast_as and to_float of every observed lane are compared with static_cast whenever the source is representable in the "
                      "destination; bitwise_cast is compared byte-for-byte for all 100 ordered type pairs and as an involution. 32-bit sources are enumerated completely in the "
                      "thorough tier (1/509 strided in quick); 64-bit sources come from a lattice around 2^24, 2^31, 2^32, 2^52, 2^53, 2^63, 2^64 (+-3 ulp / +-4) and random bits.",
        "level_note": "Trusts the compiler's scalar conversions (cvtsi2ss etc.) as reference in round-to-nearest mode. Non-representable sources are not claimed.",
        "design_ref": "DESIGN.md section 6 C06",
        "jobs": [
            {"unit": "c06"},
            {"unit": "c06", "variant": "native", "tiers": ["thorough"], "args": ["--scale", "0.2"]},
            {"unit": "c06", "variant": "clang", "tiers": ["thorough"], "args": ["--scale", "0.2"]},
        ],
        "rule": "each evaluation = one lane of one conversion compared with static_cast (bitwise_cast: one register compared by memcmp); sources: powers of two +-3ulp/+-4 for "
                "exponents {0,1,22..24,30..33,51..54,62..64}, quarter-integers, scaled random integers, hostile lattice, random bit patterns, and all/strided 32-bit patterns; "
                "distinct cell = (API form, From->To, arch, lane, source class); " + ALL22,
        "assumptions": COMMON_ASSUME + ["conversions only claimed when the source value is representable in the destination type"],
        "floor": {"quick": 10**7, "thorough": 10**9},
    },
    "C07": {
        "technique": "runtime monitoring: bit-level model on the unsigned image of every lane; value x count exhaustive for 8/16-bit lanes; 22 architectures",
        "level_text": "Every lane of every bitwise, shift (scalar count and per-lane counts) and rotate kernel call observed is compared with a model on the lane's unsigned "
                      "bit image (arithmetic right shift for signed types); every (value, count) combination of 8- and 16-bit lanes is enumerated in both tiers, 32/64-bit values "
                      "are drawn from the boundary lattice and random bit patterns for every count: exploration.",
        "level_note": "Shift/rotate counts restricted to [0,bits) (documented precondition). Trusts 128-bit/unsigned C++ arithmetic as the model.",
        "design_ref": "DESIGN.md section 6 C07",
        "jobs": [
            {"unit": "c07"},
            {"unit": "c07", "variant": "native", "tiers": ["thorough"]},
            {"unit": "c07", "variant": "ndebug", "tiers": ["thorough"]},
            {"unit": "c07", "variant": "clang", "tiers": ["thorough"]},
            {"unit": "c07", "variant": "asan", "tiers": ["thorough"], "args": ["--scale", "0.05"],
             "env": {"ASAN_OPTIONS": "abort_on_error=0:detect_leaks=0", "UBSAN_OPTIONS": "print_stacktrace=0"}},
        ],
        "rule": "each evaluation = one lane of one bitwise/shift/rotate call compared with the bit-level model; values from the boundary lattice and random bit patterns; "
                "counts: every scalar count 0..bits-1 and independent per-lane counts (0 and bits-1 over-weighted); all (value,count) pairs of 8/16-bit lanes enumerated; "
                "distinct cell = (op,type,arch,lane,value class,count mod 16); " + ALL22,
        "assumptions": COMMON_ASSUME + ["shift/rotate counts in [0,bits)"],
        "floor": {"quick": 10**7, "thorough": 10**8},
    },
    "C08": {
        "technique": "runtime monitoring: C library rounding functions as reference oracle on every lane, float32 strided/exhaustive, 22 architectures",
        "level_text": "ceil/floor/trunc/round/nearbyint/rint/nearbyint_as_int/to_int of every observed lane are compared as numbers with the C library in a baseline TU; "
                      "float32 over all 2^32 patterns (thorough) or a 1/509 strided sample plus a half-integer/ulp lattice around 0, 2^22..2^24, 2^31, 2^51..2^53, 2^63 (quick).",
        "level_note": "Trusts glibc's rounding functions in round-to-nearest mode (asserted at start). Sign of a zero result is not compared. Doubles are sampled.",
        "design_ref": "DESIGN.md section 6 C08",
        "jobs": [
            {"unit": "c02"},
            {"unit": "c02", "variant": "native", "tiers": ["thorough"], "args": ["--scale", "0.2"]},
            {"unit": "c02", "variant": "clang", "tiers": ["thorough"], "args": ["--scale", "0.2"]},
        ],
        "rule": "each evaluation = one lane of one rounding op compared numerically with the C library; inputs: hostile lattice, random bit patterns, k/2 and k+-1..2ulp "
                "lattices around 0, 1e3, 2^(mant-3..mant), 2^31, 2^32, 2^63, 2^64 with both signs, and all (thorough) or 1/509 (quick) of the 2^32 float32 patterns; "
                "distinct cell = (op,type,arch,lane,input class); " + ALL22,
        "assumptions": COMMON_ASSUME + ["default rounding mode FE_TONEAREST (asserted)", "integer-returning forms only when the rounded value fits the destination"],
        "floor": {"quick": 10**6, "thorough": 10**9},
        "exhaustive": {"quick": False, "thorough": False},
    },
    "C09": {
        "technique": "runtime monitoring: exact-sum / true-extreme oracle with the witness placed in every lane; haddp with pairwise distinct row sums; 22 architectures",
        "level_text": "reduce_add (integers exact modulo 2^bits; floats within (n-1) roundings, exact for small integers), reduce_max/min, haddp and the generic reduce(f,x) "
                      "(max, min, +, &) of every observed batch are compared with a scalar fold over the stored lanes; one-hot addends, unique extremes, type MIN/MAX and "
                      "distinct-value permutations are placed in every lane position of every type. Lane values are sampled: exploration.",
        "level_note": "No NaN lanes for max/min. reduce(f,x) only where the library has a constant swizzle kernel for the halving masks (not_accepted list in the evidence).",
        "design_ref": "DESIGN.md section 6 C09",
        "jobs": [
            {"unit": "c09"},
            {"unit": "c09", "variant": "ndebug", "tiers": ["thorough"]},
            {"unit": "c09", "variant": "clang", "tiers": ["thorough"]},
        ],
        "rule": "each evaluation = one reduction call compared with a scalar fold (128-bit / long double); workloads: random and lattice lanes, one-hot addend, unique maximum, "
                "unique minimum, type MAX / MIN in lane k, pairwise-distinct permutation, for every lane k; haddp rows random small integers, one-hot columns, and rows with "
                "pairwise distinct sums; distinct cell = (op,type,arch,workload,witness lane); " + ALL22,
        "assumptions": COMMON_ASSUME + ["floating reduce_add tolerance (n-1)*eps*sum|a_i|; exact for the small-integer workloads"],
        "floor": {"quick": 10**5, "thorough": 10**6},
    },
    "C05": {
        "technique": "runtime monitoring: index-level permutation model compared by memcmp on distinct-pattern lanes; every shift/rotate/insert count; all compress/expand masks "
                     "for <=16 lanes; constant-mask families instantiated per architecture",
        "level_text": "Every data-movement call observed (constant and run-time swizzle, shuffle, zip_lo/hi, slide_left/right<N> for every byte count, rotate_left/right<N> for "
                      "every N, extract_pair for every index, insert<I>/get for every lane, transpose, compress/expand under all 2^size masks for size <= 16) is compared lane by "
                      "lane with the documented index map on lanes holding pairwise distinct bit patterns. Constant masks are programs: structured families that select distinct "
                      "intrinsic sequences plus pseudo-random masks, and all masks for 2 lanes / 64 of 256 (quick) or all 256 (thorough) for 4 lanes. Exploration.",
        "level_note": "Combinations the library does not accept are skipped and listed (not_accepted): no 8-bit constant swizzle below avx512vbmi, no 8/16-bit on avx/avx2, "
                      "slide on avx512f/cd/dq, run-time 'not implemented' asserts for 8/16-bit zip on avx512f/cd/dq. Masks with more than 4 lanes are sampled.",
        "design_ref": "DESIGN.md section 6 C05, 5.3",
        "jobs": [
            {"unit": "c05", "tiers": ["quick"]},
            {"unit": "c16"},  # rotate / swizzle of complex batches (real and imaginary part must travel together)
            {"unit": "c05full", "tiers": ["thorough"]},
            {"unit": "c05full", "variant": "ndebug", "tiers": ["thorough"]},
            {"unit": "c05", "variant": "clang", "tiers": ["thorough"]},
        ],
        "rule": "each evaluation = one output lane (slides: one output byte) compared with the index model; constant-mask families: identity, reverse, broadcast k, rotate k, swap "
                "pairs/halves, dup even/odd, in-lane reverse, cross-lane, contiguous pairs, low/high-half-only, 8 (quick) / 24 (thorough) pseudo-random, exhaustive for <=4 lanes "
                "(64 of 256 in quick); shuffle: pure-x, pure-y, zip_lo, zip_hi, select patterns, half/half, 6/16 random; run-time: random / all-equal / extreme index vectors, "
                "one-hot / prefix / all-but-one / random / all 2^size masks; distinct cell = (op,type,arch,mask family or count or mask hash); " + ALL22,
        "assumptions": COMMON_ASSUME + ["swizzle/extract/insert indices < size, slide counts <= register bytes (documented preconditions)"],
        "floor": {"quick": 10**5, "thorough": 10**6},
    },
    "C04": {
        "technique": "runtime monitoring: PROT_NONE guard pages + canary bytes around every buffer (SIGSEGV = out-of-range access), bitwise lane/element comparison; "
                     "thorough adds ASan+UBSan (gcc, clang) and valgrind memcheck on exact-size heap blocks",
        "level_text": "Every load/store API form (member, tag, free-function, load_as/store_as, bool, complex, converting) of every element type is executed with the buffer "
                      "flush against a PROT_NONE page on either side and at every admissible byte offset of a window straddling a page boundary; a fault, a changed canary byte "
                      "outside [p,p+size) or a lane/element mismatch (memcmp, signalling-NaN payloads included) is a violation. gather/scatter tables sit flush against the guards "
                      "with extreme, equal, permuted and random indices (signed, unsigned, negative, and unsigned 32-bit indices >= 2^31 inside an 80 GiB PROT_NONE reservation); "
                      "unindexed elements must keep their canary. Exploration: the space of offsets is covered, data is sampled.",
        "level_note": "Guard pages detect accesses that leave the two writable pages; over-reads that stay inside them are only visible to the ASan/valgrind runs (thorough tier) "
                      "on the exact-size heap blocks. valgrind 3.19 cannot decode AVX-512, so those architectures rely on guard pages + ASan.",
        "design_ref": "DESIGN.md section 6 C04, section 9",
        "jobs": [
            {"unit": "c04"},
            {"unit": "c04", "variant": "ndebug", "tiers": ["thorough"]},
            {"unit": "c04", "variant": "asan", "tiers": ["thorough"],
             "env": {"ASAN_OPTIONS": "handle_segv=0:handle_sigbus=0:allow_user_segv_handler=1:detect_leaks=0", "UBSAN_OPTIONS": "print_stacktrace=0"}},
            {"unit": "c04", "variant": "asan-clang", "tiers": ["thorough"],
             "env": {"ASAN_OPTIONS": "handle_segv=0:handle_sigbus=0:allow_user_segv_handler=1:detect_leaks=0", "UBSAN_OPTIONS": "print_stacktrace=0"}},
            {"unit": "c04", "tiers": ["thorough"], "wrap": ["valgrind", "-q", "--error-exitcode=0"], "tag": "valgrind",
             "archs": ["sse2", "ssse3", "sse4_2", "avx", "avx2", "fma3_avx2", "emu128"], "args": ["--scale", "0.3"], "env": {"VH_EXACT_HEAP": "1"}},
        ],
        "rule": "each evaluation = one lane/element transferred by one load/store/gather/scatter/constructor call under the guard-page + canary monitor; placements: flush against "
                "the upper / lower PROT_NONE page, 1..7 bytes from either, every byte offset (unaligned forms) or every multiple of the architecture alignment (aligned forms) in an "
                "80-byte window straddling a page boundary, and an exact-size heap block; data: random bit patterns and signalling-NaN payloads; distinct cell = "
                "(API form, type, arch, aligned?, offset in page) / (gather|scatter, table side, index pattern); " + ALL22,
        "assumptions": COMMON_ASSUME + ["aligned forms only with pointers that are multiples of A::alignment(); scatter only with pairwise distinct indices"],
        "floor": {"quick": 10**5, "thorough": 10**6},
    },
    "C19": {
        "technique": "runtime monitoring of template instantiations: each constant pack converted to a run-time batch and compared lane by lane with the pack; constexpr operators "
                     "against lane-wise scalar operations; constant-parameter APIs against their run-time form / index model",
        "level_text": "For every architecture and element type a fixed family of packs (one-hot and all-but-one for every lane, arange, constant, alternating, small and "
                      "full-range pseudo-random, prefix) is instantiated through make_batch_constant / make_batch_bool_constant; as_batch(), the conversion operator, get(i) and "
                      "mask() (<= 32 lanes) must report the pack; every constexpr operator result, converted to a batch, must equal the lane-wise scalar operation; select with a "
                      "constant mask must equal select with the converted run-time mask bit for bit; constant swizzle must equal run-time swizzle with the converted index batch; "
                      "shuffle, slide/rotate counts and insert indices are compared with their index model. The families are fixed at build time: exploration over programs.",
        "level_note": "Packs are types, so VERIF_SEED only varies the data operands. Value packs exist for integral element types only (C++17 non-type parameters). "
                      "Operator packs keep values small so that the scalar C++ expression is defined.",
        "design_ref": "DESIGN.md section 6 C19",
        "jobs": [
            {"unit": "c19"},
            {"unit": "c05", "tiers": ["quick"]},  # constant-parameter APIs of the data-movement unit (shuffle / slide / rotate / insert), reported under C19
            {"unit": "c05full", "tiers": ["thorough"]},
            {"unit": "c19", "variant": "clang", "tiers": ["thorough"]},
        ],
        "rule": "each evaluation = one lane of one instantiated constant (or of one constant-parameter API call) compared with the pack / scalar operation / run-time form; "
                "families: one-hot and all-but-one for every lane, arange, constant, alternating, prefix, all-true/false, 4 random bool packs, 7 value packs, 6 operator "
                "pack pairs (3 with negative values for the signed types), a compact set of swizzle/shuffle masks (incl. the packs on and one index away from the in-lane "
                "fast-path shapes) and insert indices, plus the constant-mask / constant-count families of the data-movement unit (every slide and rotate count; "
                "quick: base families, thorough: full families); distinct cell = (monitor, type, arch, family/operator); " + ALL22,
        "assumptions": COMMON_ASSUME + ["mask() only for batches of at most 32 lanes (width of its int result)"],
        "floor": {"quick": 10**5, "thorough": 10**5},
        "build_failure_is_violation": True,
    },
    "C20": {
        "technique": "runtime monitoring: every geometry / trait / list-order relation evaluated at run time per architecture build (complete enumeration of the finite space), "
                     "plus an executed aligned load at exactly A::alignment()",
        "level_text": "The space is finite and is enumerated completely in every run: for each of the 22 architectures, 21 element-type spellings, the complex types, every lane "
                      "count 1..128 of make_sized_batch for six element types and every ordered pair of the three architecture lists, the relation is evaluated at run time so a "
                      "violation is a monitored event with a witness rather than a broken build. Aligned loads/stores are executed at an odd multiple of A::alignment().",
        "level_note": "Only architectures this build can instantiate contribute geometry; the list-order relations cover all_architectures as declared for x86 (the ARM/RISC-V/"
                      "WASM members are compiled out of the list on this platform).",
        "design_ref": "DESIGN.md section 6 C20",
        "jobs": [
            {"unit": "c20"},
            {"unit": "c20", "variant": "native", "tiers": ["thorough"]},
            {"unit": "c20", "variant": "clang", "tiers": ["thorough"]},
        ],
        "rule": "each evaluation = one relation instance (relation, architecture, type / lane count / list pair); all instances are enumerated, so every one is distinct and "
                "non-trivial by construction (distinct cells are counted by hashing (relation, subject)); " + ALL22,
        "assumptions": COMMON_ASSUME,
        "floor": {"quick": 100000, "thorough": 100000},
        "exhaustive": {"quick": True, "thorough": True},
    },
    "C15": {
        "technique": "runtime monitoring through the XSIMD_VERIF cpuid/xgetbv injection hook: exhaustive enumeration of feature bits x OS states against an SDM truth table; "
                     "recording functor for dispatch over instantiated sub-lists",
        "level_text": "All 2^21 combinations of the feature bits the detector reads (20 real ones plus one reserved bit it must ignore) are fed through the injected CPUID source "
                      "under each of the 5 presentable OS states (OSXSAVE clear; XCR0 = x87 / +SSE / +AVX / +AVX-512): 10.5 M detector constructions per run, each checked for all "
                      "23 x86 architectures against a truth table written from the SDM (own feature bits and XMM/YMM/ZMM state, OSXSAVE required beyond SSE, XGETBV never executed "
                      "with OSXSAVE clear) and for monotonicity on extension-closed CPUs. Non-presentable XCR0 values are only required not to crash. dispatch is exercised over "
                      "the default list, every prefix, suffix, singleton, adjacent pair and 32 pseudo-random sub-lists with sampled availability patterns: exactly one call, first "
                      "reported-available member, lvalue/move-only/const-ref arguments forwarded, result returned. The detector space is enumerated completely (fault_enumeration).",
        "level_note": "Trusts the truth table (SDM vol.1 13.3, vol.2 CPUID; AMD APM for FMA4) and the hook's faithfulness: with the guard off the real instructions are used; the real "
                      "detection on this machine is compared with /proc/cpuinfo. dispatch sub-lists are template instantiations fixed at build time.",
        "design_ref": "DESIGN.md section 6 C15, section 11",
        "level": "fault_enumeration",
        "jobs": [
            {"unit": "c15", "archs": ["avx512vnni_vbmi2", "sse2"]},
            {"unit": "c15", "variant": "clang", "archs": ["avx512vnni_vbmi2"], "tiers": ["thorough"]},
            {"unit": "c15", "variant": "ndebug", "archs": ["avx2"], "tiers": ["thorough"]},
        ],
        "rule": "each evaluation = one (architecture, CPUID/XCR0 configuration) pair checked against the truth table, one configuration checked for monotonicity, or one dispatch "
                "call checked for exactly-once/first-available/forwarding; configurations: all 2^21 feature-bit sets x 5 presentable OS states (complete), 1/37 of them x 4 "
                "non-presentable states; dispatch: 2 + 23*3 + 22 + 32 lists x sampled configurations; distinct cell = (OS state, feature bits >> 3) / (list, feature bits & 1023)",
        "assumptions": COMMON_ASSUME + ["hardware presents only XCR0 values with bit2 => bit1 and bits 7:5 all-or-none (as the property states)",
                                         "dispatch is only exercised when at least one list member is available"],
        "floor": {"quick": 10**8, "thorough": 10**8},
        "exhaustive": {"quick": True, "thorough": True},
    },
    "C18": {
        "technique": "runtime monitoring of allocate/deallocate histories with a shadow map (alignment, no overlap, content intact, freed once), overflow requests must throw; "
                     "thorough adds ASan+LSan and valgrind memcheck as heap-integrity monitors; brute-force oracle for get_alignment_offset / is_aligned",
        "level_text": "Seeded histories (up to 512 live blocks, random interleaving, n in {0..64, 2^k+-1, page multiples, 0..700}) over 10 (T, Align) instantiations: every "
                      "returned pointer must be a multiple of Align, every byte written and read back at deallocation, no two live blocks overlap; every n with n*sizeof(T) not "
                      "representable must throw std::bad_alloc; allocator equality iff equal alignment; is_aligned for all 4096 residues; get_alignment_offset against brute force "
                      "for all offsets x sizes x block sizes. Exploration: histories are sampled.",
        "level_note": "Heap corruption and leaks are only visible to the ASan/LSan and valgrind jobs of the thorough tier; the quick tier sees them only through content checks.",
        "design_ref": "DESIGN.md section 6 C18",
        "jobs": [
            {"unit": "c18", "archs": ["sse2", "avx2", "avx512f", "emu128", "emu256"]},
            {"unit": "c18", "variant": "asan", "archs": ["sse2", "avx512f"], "tiers": ["thorough"],
             "env": {"ASAN_OPTIONS": "detect_leaks=1:allocator_may_return_null=1:max_allocation_size_mb=4096", "UBSAN_OPTIONS": "print_stacktrace=0"}},
            {"unit": "c18", "variant": "asan-clang", "archs": ["avx2"], "tiers": ["thorough"],
             "env": {"ASAN_OPTIONS": "detect_leaks=1:allocator_may_return_null=1:max_allocation_size_mb=4096", "UBSAN_OPTIONS": "print_stacktrace=0"}},
            {"unit": "c18", "tiers": ["thorough"], "wrap": ["valgrind", "-q", "--leak-check=full", "--errors-for-leak-kinds=definite", "--error-exitcode=0"], "tag": "valgrind",
             "archs": ["sse2", "avx2"], "args": ["--scale", "0.2"]},
        ],
        "rule": "each evaluation = one allocate or deallocate event checked by the shadow-map monitor, one overflow request, or one predicate instance compared with brute force; "
                "distinct cell = (T, Align, request size class) / residue / (offset, size); run for the sse2, avx2 and avx512f builds (different default_arch / alignment)",
        "assumptions": ["power-of-two alignments >= sizeof(void*) (asserted by the library)", "held on the histories observed, not a proof"],
        "floor": {"quick": 10**5, "thorough": 10**6},
    },
    "C10": {
        "technique": "runtime monitoring: per-architecture shared objects evaluate the float32 elementary functions on strided (quick) / exhaustive (thorough) sweeps of all 2^32 "
                     "bit patterns in two lane layouts; oracle = double-precision libm reference with the frozen ulp bounds and graceful-saturation rules",
        "level_text": "Every value returned by every float32 elementary function on every observed argument is compared with a double-precision reference: inside the claimed range "
                      "the ulp error must not exceed the frozen bound, outside it the value must saturate gracefully (right sign, +-inf or >= MAX/16, or <= 16*MIN), never NaN. "
                      "Quick: every 128th block of 4096 consecutive patterns (offset from the seed) in both layouts (neighbours / scrambled companions) on all 22 architectures, "
                      "+-4096-pattern windows around every algorithm switch point, 2.6e5 structured pairs per binary function. Thorough: all 2^32 patterns in both layouts on the "
                      "four codegen classes (sse2, fma3<avx2>, avx512f, emulated<128>), every 8th block on all 22, 3.4e7 pairs per binary function.",
        "level_note": "Trusts glibc's double libm as reference (error < 1 double ulp = 2^-29 float ulp). Open known findings (lgamma below 2^-64, lgamma within 2^-8 of a negative "
                      "integer, tgamma reflection underflow near -36) are excluded by named predicates, not by widening bounds. The thorough tier is exhaustive only on the four "
                      "class architectures; the others are sampled 1/8.",
        "design_ref": "DESIGN.md section 6 C10, section 8",
        "jobs": [{"unit": "math", "timeout": {"quick": 1800, "thorough": 6 * 3600}}],
        "rule": "each evaluation = one (function, argument, architecture, layout) result judged against the double reference; arguments: float32 bit patterns in blocks of 4096 "
                "(layout 0: consecutive patterns share a batch; layout 1: patterns scrambled by an odd multiplier so lanes differ by dozens of binades), switch-point windows, "
                "structured/random pairs for atan2/hypot/pow; distinct cell = (function, arch, layout, sign, binade of the argument); " + ALL22,
        "assumptions": COMMON_ASSUME + ["argument finite and not subnormal; result class per DESIGN.md section 4", "pow(+-0, negative) is a pole: no claim"],
        "floor": {"quick": 10**9, "thorough": 10**11},
    },
    "C11": {
        "technique": "runtime monitoring: generated double arguments (log-uniform, uniform, binade boundaries, switch points, k*pi/2, widened floats, mixed companions) judged "
                     "against a long double reference, disagreements re-checked in __float128",
        "level_text": "Every value returned by every double elementary function on 4.2e6 (quick) / 6.7e7 (thorough) generated arguments per function per architecture is compared "
                      "with a long double (64-bit mantissa) reference and, when the error exceeds 0.75 of the bound, with __float128 (libquadmath) before it is reported. Same "
                      "bound / saturation rules as C10 with the double column of the frozen table. Doubles cannot be enumerated: exploration.",
        "level_note": "Trusts glibc long double libm and libquadmath. The generators are derived from the thresholds of the current kernels plus threshold-independent streams.",
        "design_ref": "DESIGN.md section 6 C11, section 8",
        "jobs": [{"unit": "math", "timeout": {"quick": 1800, "thorough": 6 * 3600}}],
        "rule": "each evaluation = one (function, argument, architecture) result judged against the long double / __float128 reference; nine argument streams per function, "
                "either one stream per block (neighbouring magnitudes) or one stream per element (mixed-magnitude companions); distinct cell = (function, arch, layout, sign, "
                "binade of the argument); " + ALL22,
        "assumptions": COMMON_ASSUME + ["argument finite and not subnormal; result class per DESIGN.md section 4"],
        "floor": {"quick": 10**8, "thorough": 10**10},
    },
    "C12": {
        "technique": "runtime monitoring: table of special operands with expected result classes placed in every lane; bit-for-bit symmetry / identity relations evaluated on "
                     "float32 sweeps and double samples (the monitor negates on the stored bits)",
        "level_text": "(a) ~170 (function, special operand, expected class) rows -- NaN in, domain errors, poles and limits, the exact identities the property lists -- are evaluated "
                      "with the special operand in every lane and three companion sets, float and double, all architectures. (b) odd/even symmetry, sincos == (sin, cos), "
                      "fabs == abs, rint == nearbyint are compared bit for bit on every 128th (quick) / every (thorough, class architectures; 1/8 on the others) block of the 2^31 "
                      "non-negative float32 patterns in two layouts and on 1.3e5 / 1e7 generated doubles.",
        "level_note": "The special-value table is written from the property text and C99 Annex F, not from the code. Relations need no reference.",
        "design_ref": "DESIGN.md section 6 C12",
        "jobs": [{"unit": "math", "timeout": {"quick": 1800, "thorough": 6 * 3600}}],
        "rule": "each evaluation = one special-operand placement (function, operand, lane, companion set) or one argument of one relation; distinct cell = (row, lane) / "
                "(relation, arch, layout, binade); " + ALL22,
        "assumptions": COMMON_ASSUME + ["any NaN equals any NaN", "sign of zero of log(1) not compared"],
        "floor": {"quick": 10**8, "thorough": 10**10},
    },
    "C13": {
        "technique": "runtime monitoring: f(v)[k] versus f(broadcast(v[k]))[0] for every lane k and branch-driving companion sets; bit identity for the exact operations, "
                     "accuracy-bound + special-class agreement for the elementary functions",
        "level_text": "For the exact operations of C01-C08 the integer, floating-point, rounding, bit and conversion units re-evaluate one lane per batch with its operands "
                      "broadcast and require the bit-identical result (and identical lanes in the broadcast result). For the elementary functions the math runner evaluates "
                      "batches of six companion classes (all small / one huge / one NaN or inf / mixed signs / straddling switch points / anything) and the broadcast of the lane "
                      "under test: both must satisfy the function's bound, agree on NaN/inf class, and broadcast lanes must be identical; last-bit differences are counted.",
        "level_note": "Companion sets are derived from the any()/all() thresholds of the current kernels plus unstructured ones.",
        "design_ref": "DESIGN.md section 6 C13",
        "jobs": [{"unit": "c01"}, {"unit": "c02"}, {"unit": "c03"}, {"unit": "c06"}, {"unit": "c07"}, {"unit": "math", "timeout": {"quick": 1800, "thorough": 6 * 3600}}],
        "rule": "each evaluation = one (op, lane k, companion set) comparison of the in-batch result with the broadcast result; distinct cell = (op, type, arch, lane, operand "
                "classes) / (function, arch, companion class, lane); " + ALL22,
        "assumptions": COMMON_ASSUME,
        "floor": {"quick": 10**6, "thorough": 10**7},
    },
    "C14": {
        "technique": "runtime monitoring through the XSIMD_VERIF_LOOP_TICK hook: iteration count of every data-dependent loop per call (one batch per call), bound 64 (float) / "
                     "256 (double); CPU-time monitor per block for every function; watchdog",
        "level_text": "tgamma and lgamma are called one batch at a time with the iteration counter reset; a call whose loops exceed 64 (float) / 256 (double) iterations is cut "
                      "short by the hook and reported with its lanes. Arguments: every 512th (quick) / 16th (thorough) block of all float32 patterns in both layouts, and doubles "
                      "from the generator streams, every binade, NaN/inf and mixed companions (one huge lane among small ones). For all functions the CPU time of every block of "
                      "one magnitude class is recorded and a block 50x slower than its function's median is re-run alone three times before it is reported. A run that does not "
                      "finish inside the watchdog is reported as a hang.",
        "level_note": "Termination cannot be proved by running; iteration bounds are checked on the argument classes generated. Loops without the hook are covered by the timing "
                      "monitor and the watchdog only.",
        "design_ref": "DESIGN.md section 6 C14, section 11",
        "jobs": [{"unit": "math", "timeout": {"quick": 1200, "thorough": 4 * 3600}}],
        "rule": "each evaluation = one call (one batch) of tgamma/lgamma with its iteration count, or one timed block of 1024 arguments of one magnitude class; distinct cell = "
                "(function, arch, layout, sign, binade); " + ALL22,
        "assumptions": COMMON_ASSUME + ["legitimate maxima: ~170 iterations for double tgamma below its overflow threshold, ~33 for float"],
        "floor": {"quick": 10**6, "thorough": 10**8},
        "hang_is_violation": True,
    },
    "C16": {
        "technique": "runtime monitoring: std::complex<long double> reference oracle with per-operation eps tolerances on a log-polar operand grid (axes, diagonals, both sides "
                     "of the branch cuts); guard-page monitor for the interleaved loads/stores",
        "level_text": "Every lane of every complex arithmetic / fused / comparison / component / elementary-function call observed is compared with std::complex<long double>: "
                      "arithmetic within 8 eps of |result|, fused forms within 8 eps of max(|result|, |x||y|+|z|), exp/expm1/sqrt/sin/cos/sinh/cosh within 8 eps and the other claimed "
                      "functions within 32 eps of max(|result|,1), pow(z, real) on |r||Log z| <= 8, tan/tanh on |Re|,|Im| <= 20; real/imag/conj/proj/neg and ==/!= exactly. "
                      "Operands: moduli 2^-20..2^20, the 8 axis/diagonal directions exactly with +-0 components, random directions, every lane. Interleaved loads/stores run under "
                      "the C04 guard-page monitor. asin/acos/atan/asinh/acosh/atanh/log1p are not claimed (DESIGN.md 5.1) and only run under the crash monitor. Exploration.",
        "level_note": "Trusts libstdc++'s std::complex<long double> on x87 extended precision. No open finding: sqrt on the lower side of the cut, tan/tanh near their poles, "
                      "division with underflowing products and log of denormal moduli were repaired in /repo (DESIGN.md 12.8); their probes and sweeps stay in the unit.",
        "design_ref": "DESIGN.md section 6 C16, 5.1",
        "jobs": [
            {"unit": "c16"},
            {"unit": "c04"},
            {"unit": "c16", "variant": "native", "tiers": ["thorough"], "args": ["--scale", "0.3"]},
            {"unit": "c16", "variant": "clang", "tiers": ["thorough"], "args": ["--scale", "0.3"]},
        ],
        "rule": "each evaluation = one lane of one complex operation compared with the long double reference (or one element of an interleaved transfer under the guard-page "
                "monitor); distinct cell = (op, type, arch, lane, direction class of each operand) / (placement, alignment); " + ALL22,
        "assumptions": COMMON_ASSUME + ["finite operands, no intermediate overflow (moduli <= 2^20), results outside the subnormal range"],
        "floor": {"quick": 10**6, "thorough": 10**7},
    },
    "C17": {
        "technique": "runtime monitoring: every scalar overload compared with the C01/C02/C03/C06/C07/C08 reference model and with lane 0 of the batch kernel of the architecture "
                     "under test; 8-bit operand pairs exhaustive, 16-bit strided/exhaustive",
        "level_text": "Each scalar overload (add .. pow with integer exponent) is evaluated on all 8-bit operand pairs, a 1/4099 (quick) or 1/17 (thorough) stride of the 16-bit pairs, and "
                      "boundary-lattice + random operands of the wider and floating types (NaN excluded, exact-cancellation triples for the fma family over-weighted); the result "
                      "must equal the model bit for bit (fused-or-unfused for the fma family, numerically for min/max of +-0) and lane 0 of the batch form on sse2, avx2, avx512bw "
                      "and emulated<128>. Scalar elementary functions are compared with the batch lane within an 8-ulp envelope (the per-function bounds are C10/C11's).",
        "level_note": "The scalar overloads are architecture independent; the four architectures only vary the batch side of the comparison. rotl/rotr on signed types is the "
                      "open finding F2 (shared with C07). Scalar rotl/rotr are not called with a zero count on 32/64-bit types (shift by the full width is undefined in C++).",
        "design_ref": "DESIGN.md section 6 C17",
        "jobs": [
            {"unit": "c17", "archs": ["sse2", "avx2", "avx512bw", "emu128"]},
            {"unit": "c17", "variant": "clang", "archs": ["avx2", "avx512bw"], "tiers": ["thorough"], "args": ["--scale", "0.3"]},
            {"unit": "c17", "variant": "ndebug", "archs": ["sse2", "avx512bw"], "tiers": ["thorough"], "args": ["--scale", "0.3"]},
            {"unit": "c17", "variant": "asan", "archs": ["sse2", "avx2"], "tiers": ["thorough"], "args": ["--scale", "0.02"],
             "env": {"ASAN_OPTIONS": "detect_leaks=0", "UBSAN_OPTIONS": "print_stacktrace=0"}},
        ],
        "rule": "each evaluation = one scalar overload call compared with the model and with the batch lane; operands: all 2^16 8-bit pairs, strided 16-bit pairs, boundary "
                "lattice and random bit patterns, exact-cancellation fma triples; distinct cell = (op, type, arch, class of each operand)",
        "assumptions": COMMON_ASSUME + ["non-NaN scalars (as the property states)", "sign, signnz, bitofsign excluded (documented different encodings)"],
        "floor": {"quick": 10**7, "thorough": 10**8},
    },
}
