"""Static tables: architectures, build variants, units, properties."""

AVX512_BASE = ["-mavx512f"]
ARCHS = {
    "sse2": {"type": "xsimd::sse2", "flags": ["-msse2"]},
    "sse3": {"type": "xsimd::sse3", "flags": ["-msse3"]},
    "ssse3": {"type": "xsimd::ssse3", "flags": ["-mssse3"]},
    "sse4_1": {"type": "xsimd::sse4_1", "flags": ["-msse4.1"]},
    "sse4_2": {"type": "xsimd::sse4_2", "flags": ["-msse4.2"]},
    "fma3_sse42": {"type": "xsimd::fma3<xsimd::sse4_2>", "flags": ["-msse4.2", "-mfma"]},
    "avx": {"type": "xsimd::avx", "flags": ["-mavx"]},
    "fma3_avx": {"type": "xsimd::fma3<xsimd::avx>", "flags": ["-mavx", "-mfma"]},
    "avx2": {"type": "xsimd::avx2", "flags": ["-mavx2"]},
    "fma3_avx2": {"type": "xsimd::fma3<xsimd::avx2>", "flags": ["-mavx2", "-mfma"]},
    "avxvnni": {"type": "xsimd::avxvnni", "flags": ["-mavx2", "-mavxvnni"]},
    "avx512f": {"type": "xsimd::avx512f", "flags": ["-mavx512f"]},
    "avx512cd": {"type": "xsimd::avx512cd", "flags": ["-mavx512f", "-mavx512cd"]},
    "avx512dq": {"type": "xsimd::avx512dq", "flags": ["-mavx512f", "-mavx512cd", "-mavx512dq"]},
    "avx512bw": {"type": "xsimd::avx512bw", "flags": ["-mavx512f", "-mavx512cd", "-mavx512dq", "-mavx512bw"]},
    "avx512ifma": {"type": "xsimd::avx512ifma", "flags": ["-mavx512f", "-mavx512cd", "-mavx512dq", "-mavx512bw", "-mavx512ifma"]},
    "avx512vbmi": {"type": "xsimd::avx512vbmi", "flags": ["-mavx512f", "-mavx512cd", "-mavx512dq", "-mavx512bw", "-mavx512ifma", "-mavx512vbmi"]},
    "avx512vbmi2": {"type": "xsimd::avx512vbmi2", "flags": ["-mavx512f", "-mavx512cd", "-mavx512dq", "-mavx512bw", "-mavx512ifma", "-mavx512vbmi", "-mavx512vbmi2"]},
    "avx512vnni_bw": {"type": "xsimd::avx512vnni<xsimd::avx512bw>", "flags": ["-mavx512f", "-mavx512cd", "-mavx512dq", "-mavx512bw", "-mavx512vnni"]},
    "avx512vnni_vbmi2": {"type": "xsimd::avx512vnni<xsimd::avx512vbmi2>",
                         "flags": ["-mavx512f", "-mavx512cd", "-mavx512dq", "-mavx512bw", "-mavx512ifma", "-mavx512vbmi", "-mavx512vbmi2", "-mavx512vnni"]},
    "emu128": {"type": "xsimd::emulated<128>", "flags": ["-msse2", "-DXSIMD_WITH_EMULATED=1"]},
    "emu256": {"type": "xsimd::emulated<256>", "flags": ["-msse2", "-DXSIMD_WITH_EMULATED=1"]},
}

# Build variants.  "min": g++ -O2, asserts on, only the arch's minimal -m flags.
SAN_FATAL = "bounds,alignment,null,bool,enum,vla-bound,unreachable,return,shift-exponent,pointer-overflow,integer-divide-by-zero"
VARIANTS = {
    "min": {"cxx": "g++", "flags": ["-O2", "-DXSIMD_VERIF"]},
    "ndebug": {"cxx": "g++", "flags": ["-O2", "-DNDEBUG", "-DXSIMD_VERIF"]},
    "native": {"cxx": "g++", "flags": ["-O2", "-DXSIMD_VERIF"], "native": True},
    "clang": {"cxx": "clang++-14", "flags": ["-O2", "-DXSIMD_VERIF"]},
    "asan": {"cxx": "g++", "sanitizer": True,
             "flags": ["-O1", "-g", "-fno-omit-frame-pointer", "-DXSIMD_VERIF", "-fsanitize=address,undefined", "-fno-sanitize-recover=" + SAN_FATAL]},
    "asan-clang": {"cxx": "clang++-14", "sanitizer": True,
                   "flags": ["-O1", "-g", "-fno-omit-frame-pointer", "-DXSIMD_VERIF", "-fsanitize=address,undefined", "-fno-sanitize=object-size",
                             "-fno-sanitize-recover=" + SAN_FATAL]},
}

UNITS = {
    "c01": {"kind": "exe", "src": ["units/c01_int_arith.cpp"]},
}

ALL22 = "every architecture this CPU executes: 20 x86 (sse2 ... avx512vnni<avx512vbmi2>) + emulated<128>, emulated<256>"
COMMON_ASSUME = [
    "the sandbox CPU executes each instruction set as specified; architectures it cannot execute (fma4, avx512er/pf, NEON, SVE, RVV, WASM) are not observed",
    "g++ 12 -O2 with each architecture's minimal -m flags is the observed compilation (thorough tier adds -march=native, -DNDEBUG, clang and sanitizer builds)",
    "held on the executions observed, not a proof",
]

HOOK_COMMITS = []
NOT_APPLICABLE = {}

PROPS = {
    "C01": {
        "technique": "runtime monitoring: reference-model oracle (128-bit integer model) on every lane of real kernel executions, 22 architectures",
        "level_text": "Every lane of every integer arithmetic kernel call observed is compared bit-exactly with an independent 128-bit integer model, on all 22 "
                      "executable architectures, over boundary-lattice, random-bit and witness-lane workloads plus exhaustive 8-bit (and, thorough, 16-bit) operand pairs. "
                      "Exploration is the honest level: 32/64-bit operand pairs are sampled, not enumerated.",
        "level_note": "Trusts the CPU, g++/clang code generation and the 128-bit reference arithmetic (itself UBSan-clean). Says nothing about ISAs this machine cannot execute.",
        "design_ref": "DESIGN.md section 6 C01, section 4",
        "jobs": [
            {"unit": "c01"},
            {"unit": "c01", "variant": "native", "tiers": ["thorough"]},
            {"unit": "c01", "variant": "ndebug", "tiers": ["thorough"]},
            {"unit": "c01", "variant": "clang", "tiers": ["thorough"]},
            {"unit": "c01", "variant": "asan", "tiers": ["thorough"], "args": ["--scale", "0.05"],
             "env": {"ASAN_OPTIONS": "abort_on_error=0:detect_leaks=0", "UBSAN_OPTIONS": "print_stacktrace=0"}},
        ],
        "rule": "each evaluation = one lane of one op call compared bit-exactly with a 128-bit integer model; operands per lane drawn independently from "
                "a boundary lattice (0,+-1,MIN,MIN+1,MAX,2^k,2^k+-1,~2^k,small) and random bit patterns, a witness-lane sweep, and exhaustive 8-bit / "
                "(thorough: all 2^32; quick: 1/127 strided) 16-bit operand pairs; a distinct non-trivial cell = (op,type,arch,lane,class of each operand); " + ALL22,
        "assumptions": COMMON_ASSUME + ["div/mod only with divisor != 0 and not MIN/-1; avgr only when a+b >= 0"],
        "floor": {"quick": 10**7, "thorough": 10**9},
    },
}
