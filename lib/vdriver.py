"""Driver: build -> run -> aggregate -> known findings -> evidence -> exit code."""
import sys, os, json, time, subprocess, shutil, hashlib, re, glob
from concurrent.futures import ThreadPoolExecutor

ROOT = os.path.dirname(os.path.dirname(os.path.abspath(__file__)))
REPO = os.environ.get("VERIF_REPO", "/repo")
# VERIF_REPO=<other tree> runs the same checks against a scratch copy (seeded-defect trials) with its own
# build / output / evidence directories, so that it cannot disturb checks running against /repo.
ALT = os.path.realpath(REPO) != "/repo"
_alt = ("alt-" + hashlib.sha256(os.path.realpath(REPO).encode()).hexdigest()[:8]) if ALT else ""
BUILD = os.path.join(ROOT, "build", _alt) if ALT else os.path.join(ROOT, "build")
OUT = os.path.join(ROOT, "out", _alt) if ALT else os.path.join(ROOT, "out")
EVID = os.path.join(OUT, "evidence") if ALT else os.path.join(ROOT, "evidence")
HARN = os.path.join(ROOT, "harness")
NCPU = os.cpu_count() or 8

sys.path.insert(0, os.path.join(ROOT, "lib"))
from vtable import ARCHS, UNITS, PROPS, VARIANTS  # noqa: E402


def log(*a):
    print(*a, file=sys.stderr, flush=True)


# ----------------------------------------------------------------------------- hashing / building
_inc_hash = None


def include_hash():
    global _inc_hash
    if _inc_hash is None:
        h = hashlib.sha256()
        base = os.path.join(REPO, "include")
        for dp, dn, fn in sorted(os.walk(base)):
            dn.sort()
            for f in sorted(fn):
                p = os.path.join(dp, f)
                h.update(os.path.relpath(p, base).encode())
                with open(p, "rb") as fh:
                    h.update(fh.read())
        _inc_hash = h.hexdigest()
    return _inc_hash


def file_hash(paths):
    h = hashlib.sha256()
    for p in paths:
        h.update(p.encode())
        with open(p, "rb") as fh:
            h.update(fh.read())
    return h.hexdigest()


_cc_ver = {}


def cc_version(cc):
    if cc not in _cc_ver:
        _cc_ver[cc] = subprocess.run([cc, "--version"], capture_output=True, text=True).stdout.splitlines()[0]
    return _cc_ver[cc]


def common_sources():
    return sorted(glob.glob(os.path.join(HARN, "common", "*")))


def unit_build_dir(unit, variant):
    u = UNITS[unit]
    v = VARIANTS[variant]
    srcs = [os.path.join(HARN, s) for s in u["src"]] + common_sources()
    for spec in u.get("aux", {}).values():  # runner sources and every header next to them
        d = os.path.dirname(os.path.join(HARN, spec["src"]))
        srcs += sorted(glob.glob(os.path.join(d, "*.[ch]pp")))
    srcs = sorted(set(srcs))
    key = "|".join([include_hash(), file_hash(srcs), json.dumps(u, sort_keys=True), json.dumps(v, sort_keys=True),
                    json.dumps(ARCHS, sort_keys=True), cc_version(v["cxx"])])
    hh = hashlib.sha256(key.encode()).hexdigest()[:16]
    return os.path.join(BUILD, "%s-%s-%s" % (unit, variant, hh))


def arch_flags(arch, variant):
    a = ARCHS[arch]
    v = VARIANTS[variant]
    fl = list(a["flags"])
    if v.get("native"):
        fl = ["-march=native"] + [f for f in fl if f.startswith("-D")]
    return fl


def compile_one(unit, variant, arch, bdir):
    u = UNITS[unit]
    v = VARIANTS[variant]
    cxx = v["cxx"]
    out = os.path.join(bdir, ("lib%s.so" % arch) if u["kind"] == "so" else arch)
    if os.path.exists(out):
        return (arch, True, "")
    tmp = out + ".tmp.%d" % os.getpid()
    cmd = [cxx, "-std=c++17"] + v["flags"] + ["-I", os.path.join(REPO, "include"), "-I", os.path.join(HARN, "common")]
    cmd += arch_flags(arch, variant) + ["-DVARCH=" + ARCHS[arch]["type"], "-DVARCH_NAME=\"%s\"" % arch] + u.get("flags", [])
    if u["kind"] == "so":
        cmd += ["-shared", "-fPIC", "-fvisibility=hidden", "-fvisibility-inlines-hidden"]
    cmd += [os.path.join(HARN, u["src"][0])]
    for extra in u.get("link", []):
        cmd += [os.path.join(bdir, extra + ".o")]
    cmd += ["-o", tmp] + u.get("libs", [])
    r = subprocess.run(cmd, capture_output=True, text=True)
    if r.returncode != 0:
        with open(os.path.join(bdir, arch + ".err"), "w") as f:
            f.write(" ".join(cmd) + "\n" + r.stderr)
        return (arch, False, r.stderr[-3000:])
    os.rename(tmp, out)
    return (arch, True, "")


def compile_aux(unit, variant, bdir):
    """Objects compiled once per unit with baseline flags (reference models, runners)."""
    u = UNITS[unit]
    v = VARIANTS[variant]
    ok = True
    err = ""
    for name, spec in u.get("aux", {}).items():
        out = os.path.join(bdir, name + (".o" if spec.get("obj", True) else ""))
        if os.path.exists(out):
            continue
        cxx = v["cxx"]
        base = [f for f in v["flags"] if not f.startswith("-march")]
        cmd = [cxx, "-std=c++17"] + base + spec.get("flags", []) + ["-I", os.path.join(HARN, "common")]
        if spec.get("obj", True):
            cmd += ["-c"]
        cmd += [os.path.join(HARN, spec["src"]), "-o", out + ".tmp"] + spec.get("libs", [])
        r = subprocess.run(cmd, capture_output=True, text=True)
        if r.returncode != 0:
            ok = False
            err += r.stderr[-3000:]
            with open(os.path.join(bdir, name + ".err"), "w") as f:
                f.write(" ".join(cmd) + "\n" + r.stderr)
        else:
            os.rename(out + ".tmp", out)
    return ok, err


def build(unit, variant, archs, pool):
    """Returns (bdir, failed: {arch: stderr})."""
    bdir = unit_build_dir(unit, variant)
    # drop stale builds of the same unit/variant (disk)
    for d in glob.glob(os.path.join(BUILD, "%s-%s-*" % (unit, variant))):
        if d != bdir:
            shutil.rmtree(d, ignore_errors=True)
    os.makedirs(bdir, exist_ok=True)
    ok, err = compile_aux(unit, variant, bdir)
    if not ok:
        return bdir, {"aux": err}
    failed = {}
    futs = [pool.submit(compile_one, unit, variant, a, bdir) for a in archs]
    for f in futs:
        a, ok, err = f.result()
        if not ok:
            failed[a] = err
    return bdir, failed


# ----------------------------------------------------------------------------- running
def run_proc(cmd, outfile, timeout, env=None):
    t0 = time.time()
    e = dict(os.environ)
    if env:
        e.update(env)
    try:
        r = subprocess.run(cmd, capture_output=True, text=True, timeout=timeout, env=e, errors="replace")
        rc, err, to = r.returncode, (r.stderr or "")[-20000:], False
    except subprocess.TimeoutExpired as ex:
        rc, err, to = -9, (ex.stderr.decode(errors="replace") if isinstance(ex.stderr, bytes) else (ex.stderr or ""))[-20000:], True
    events = []
    if os.path.exists(outfile):
        with open(outfile, errors="replace") as f:
            for line in f:
                line = line.strip()
                if not line:
                    continue
                try:
                    events.append(json.loads(line))
                except Exception:
                    # printf renders non-finite numbers as nan / -nan / inf: quote them and retry
                    fixed = re.sub(r'([:\[,])\s*(-?nan|-?inf)(?=[,}\]])', lambda m: m.group(1) + '"' + m.group(2) + '"', line)
                    try:
                        events.append(json.loads(fixed))
                    except Exception:
                        events.append({"t": "garbled", "raw": line[:300]})
    return {"rc": rc, "stderr": err, "timeout": to, "events": events, "wall": time.time() - t0}


# ----------------------------------------------------------------------------- known findings
def load_known():
    p = os.path.join(ROOT, "known_findings.json")
    if not os.path.exists(p):
        return []
    with open(p) as f:
        return json.load(f).get("findings", [])


def _m(pat, val):
    if pat == "*" or pat is None:
        return True
    if isinstance(pat, list):
        return val in pat
    return pat == val


def match_known(known, v):
    if v["cls"] == "unclassified" or v["cls"].startswith("crash") or v["cls"].startswith("hang"):
        # crashes / hangs can only be listed with their full case string as class
        pass
    for k in known:
        if k.get("status") != "open":
            continue
        if k["property"] != v["prop"]:
            continue
        if v["cls"] == "unclassified":
            return None
        if _m(k.get("op"), v["op"]) and _m(k.get("arch"), v["arch"]) and _m(k.get("type"), v["type"]) and k.get("cls") == v["cls"]:
            return k
    return None


# ----------------------------------------------------------------------------- one property check
def selected_archs(job, only):
    archs = job.get("archs") or list(ARCHS.keys())
    if only:
        archs = [a for a in archs if a in only]
    return archs


def jobs_for(prop, tier):
    P = PROPS[prop]
    jobs = []
    for j in P["jobs"]:
        if tier not in j.get("tiers", ["quick", "thorough"]):
            continue
        jobs.append(j)
    return jobs


def run_property(prop, tier, seed, only_archs=None, scale=None, extra_args=None, replay=None):
    t0 = time.time()
    P = PROPS[prop]
    pool = ThreadPoolExecutor(NCPU)
    rundir = os.path.join(OUT, "run", prop + ("-replay" if replay else ""))
    shutil.rmtree(rundir, ignore_errors=True)
    os.makedirs(rundir, exist_ok=True)
    inconclusive = []
    viols = []  # dicts
    violcounts = {}
    ops = {}  # (op,type) -> {evals, cells, archs}
    per_arch = {}
    samples = []
    na = set()
    infos = {}
    build_failures = {}
    jobs = jobs_for(prop, tier)
    # ---- build
    built = []
    for j in jobs:
        archs = selected_archs(j, only_archs)
        tb = time.time()
        bdir, failed = build(j["unit"], j.get("variant", "min"), archs, pool)
        log("[build] %s/%s: %d archs in %.0fs%s" % (j["unit"], j.get("variant", "min"), len(archs), time.time() - tb,
                                                     (" FAILED: " + ",".join(failed)) if failed else ""))
        for a, err in failed.items():
            build_failures["%s/%s/%s" % (j["unit"], j.get("variant", "min"), a)] = err
        built.append((j, bdir, [a for a in archs if a not in failed] if "aux" not in failed else []))
    # ---- run
    futs = []
    for j, bdir, archs in built:
        u = UNITS[j["unit"]]
        timeout = j.get("timeout", {}).get(tier, 900 if tier == "quick" else 6 * 3600)
        args = ["--seed", str(seed), "--tier", tier, "--prop", prop] + j.get("args", []) + (extra_args or [])
        if scale:
            args += ["--scale", str(scale)]
        env = j.get("env", {})
        if u["kind"] == "exe":
            for a in archs:
                outfile = os.path.join(rundir, "%s-%s%s-%s.jsonl" % (j["unit"], j.get("variant", "min"), j.get("tag", ""), a))
                cmd = j.get("wrap", []) + [os.path.join(bdir, a), "--out", outfile] + args
                futs.append((j, a, pool.submit(run_proc, cmd, outfile, timeout, env), cmd))
        else:  # runner loading one .so per arch
            outfile = os.path.join(rundir, "%s-%s.jsonl" % (j["unit"], j.get("variant", "min")))
            cmd = [os.path.join(bdir, u["runner"]), "--out", outfile] + args + ["--libs"] + [os.path.join(bdir, "lib%s.so" % a) for a in archs]
            futs.append((j, "*", pool.submit(run_proc, cmd, outfile, timeout, env), cmd))
    evals_total = 0
    cells_total = 0
    san_reports = []
    for j, arch, fut, cmd in futs:
        r = fut.result()
        tag = "%s/%s/%s" % (j["unit"], j.get("variant", "min"), arch)
        done = False
        for ev in r["events"]:
            t = ev.get("t")
            earch = ev.get("arch", arch)
            if t == "viol":
                if ev.get("prop") != prop:
                    continue
                ev = dict(ev)
                ev["arch"] = earch
                ev["unit"] = j["unit"]
                ev["variant"] = j.get("variant", "min")
                ev["cmd"] = cmd
                viols.append(ev)
            elif t == "violcount":
                if ev["key"].split("|")[0] == prop:
                    k = ev["key"] + "|" + earch
                    violcounts[k] = violcounts.get(k, 0) + ev["n"]
            elif t == "op":
                if ev.get("prop") != prop:
                    continue
                key = (ev["op"], ev["type"])
                o = ops.setdefault(key, {"evals": 0, "cells": 0, "archs": 0})
                o["evals"] += ev["evals"]
                o["cells"] += ev["cells"]
                o["archs"] += 1
                evals_total += ev["evals"]
                cells_total += ev["cells"]
                pa = per_arch.setdefault(earch, {"evals": 0, "cells": 0})
                pa["evals"] += ev["evals"]
                pa["cells"] += ev["cells"]
                for s in ev.get("samples", [])[:1]:
                    if len(samples) < 400:
                        samples.append({"op": ev["op"], "type": ev["type"], "arch": earch, "case": s})
            elif t == "na":
                if ev.get("prop") == prop:
                    na.add("%s<%s>@%s: %s" % (ev["op"], ev["type"], earch, ev["why"]))
            elif t == "info":
                infos.setdefault(ev["key"], {})[earch] = ev["v"]
            elif t == "crash":
                case = ev.get("case", "")
                m = re.match(r"([A-Za-z0-9_:]+)<([a-z0-9_]+)>", case)
                viols.append({"prop": prop, "op": m.group(1) if m else "?", "type": m.group(2) if m else "?", "cls": "crash:sig%d" % ev.get("sig", 0),
                              "arch": earch, "w": {"case": case}, "unit": j["unit"], "variant": j.get("variant", "min"), "cmd": cmd})
            elif t == "done":
                done = True
            elif t == "inconclusive":
                inconclusive.append("%s: %s" % (tag, ev.get("why", "")))
            elif t == "garbled":
                inconclusive.append("%s: unparsable event line: %s" % (tag, ev.get("raw", "")))
        if j.get("tag") == "valgrind":
            for m in re.finditer(r"(Invalid (?:read|write) of size \d+[^\n]*|Conditional jump or move depends on uninitialised[^\n]*|Use of uninitialised value[^\n]*)", r["stderr"]):
                san_reports.append({"job": tag, "report": "valgrind: " + m.group(1)[:300]})
        # sanitizer reports on stderr
        if VARIANTS[j.get("variant", "min")].get("sanitizer"):
            for m in re.finditer(r"(runtime error: [^\n]*|ERROR: AddressSanitizer: [^\n]*|ERROR: LeakSanitizer: [^\n]*)", r["stderr"]):
                san_reports.append({"job": tag, "report": m.group(1)[:300]})
        if r["timeout"]:
            if P.get("hang_is_violation"):
                viols.append({"prop": prop, "op": "?", "type": "?", "cls": "hang", "arch": arch, "w": {"cmd": " ".join(cmd), "timeout_s": r["wall"]},
                              "unit": j["unit"], "variant": j.get("variant", "min"), "cmd": cmd})
            else:
                inconclusive.append("%s: watchdog fired after %.0fs" % (tag, r["wall"]))
        elif not done:
            crashed = any(e.get("t") == "crash" for e in r["events"])
            if not crashed:
                inconclusive.append("%s: unit exited rc=%s without completing: %s" % (tag, r["rc"], r["stderr"][-400:].replace("\n", " | ")))
    # ---- build failures: inconclusive unless the property treats them as violations (static_assert monitors)
    for k, err in build_failures.items():
        if P.get("build_failure_is_violation") and "static assertion failed" in err:
            m = re.search(r"static assertion failed: ([^\n]*)", err)
            viols.append({"prop": prop, "op": "static_assert", "type": "?", "cls": "unclassified", "arch": k.split("/")[-1],
                          "w": {"message": m.group(1) if m else err[-300:]}, "unit": k.split("/")[0], "variant": k.split("/")[1], "cmd": []})
        else:
            inconclusive.append("build failed: %s: %s" % (k, err[-600:].replace("\n", " | ")))
    # ---- sanitizer reports
    info_ub = []
    for s in san_reports:
        rep = s["report"]
        if "signed integer overflow" in rep or "negation of" in rep or ("left shift of" in rep and "places cannot be represented" in rep) or "left shift of negative value" in rep:
            info_ub.append(rep)
            continue
        viols.append({"prop": prop, "op": "sanitizer", "type": "?", "cls": "unclassified", "arch": s["job"].split("/")[-1],
                      "w": {"report": rep}, "unit": s["job"].split("/")[0], "variant": s["job"].split("/")[1], "cmd": []})
    # ---- known findings
    known = load_known()
    seen_known = {}
    unlisted = {}
    for v in viols:
        k = match_known(known, v)
        key = "|".join([v["prop"], v["op"], v["type"], v["cls"]])
        if k is not None:
            seen_known.setdefault(k["id"], {"k": k, "n": 0, "example": v})["n"] += 1
        else:
            u = unlisted.setdefault(key, dict(v, archs=[]))
            if v["arch"] not in u["archs"]:
                u["archs"].append(v["arch"])
    rc = 0
    os.makedirs(os.path.join(OUT, "replay"), exist_ok=True)
    for kid, d in sorted(seen_known.items()):
        print("KNOWN-FINDING: property=%s %s [%s] e.g. %s<%s>@%s %s" % (prop, d["k"]["what"], kid, d["example"]["op"], d["example"]["type"],
                                                                           d["example"]["arch"], json.dumps(d["example"]["w"])[:300]))
    replay_paths = []
    for key, v in sorted(unlisted.items()):
        hh = hashlib.sha256(key.encode()).hexdigest()[:10]
        path = os.path.join(OUT, "replay", "%s-%s.json" % (prop, hh))
        with open(path, "w") as f:
            json.dump({"property": prop, "unit": v["unit"], "variant": v["variant"], "arch": v["arch"], "seed": seed, "tier": tier, "op": v["op"],
                       "type": v["type"], "cls": v["cls"], "witness": v["w"], "archs": v["archs"],
                       "count": sum(violcounts.get("|".join([v["prop"], v["op"], v["type"], v["cls"], a]), 0) for a in v["archs"]),
                       "cmd": v.get("cmd")}, f, indent=1)
        replay_paths.append(path)
        if not replay:
            print("VIOLATION property=%s replay=%s" % (prop, path))
            print("  witness: %s<%s> cls=%s archs=%s %s" % (v["op"], v["type"], v["cls"], ",".join(v["archs"]), json.dumps(v["w"])[:400]))
        rc = 1
    floor = P.get("floor", {}).get(tier, 1)
    if only_archs is None and not replay and evals_total < floor:
        inconclusive.append("monitor observed %d evaluations, below the floor %d" % (evals_total, floor))
    if rc == 0 and inconclusive:
        rc = 2
    for m in inconclusive:
        print("INCONCLUSIVE property=%s %s" % (prop, m[:600]))
    # ---- evidence
    if not replay:
        ev_samples = samples[:: max(1, len(samples) // 12)][:12]
        for key, v in list(unlisted.items())[:8]:
            ev_samples.append({"violation": key, "witness": v["w"]})
        for kid, d in list(seen_known.items())[:8]:
            ev_samples.append({"known_finding": kid, "witness": d["example"]["w"], "op": d["example"]["op"], "arch": d["example"]["arch"]})
        if not ev_samples:
            ev_samples = [{"note": "no samples recorded"}]
        cov = {
            "evaluations": int(evals_total),
            "distinct_nontrivial": int(cells_total),
            "rule": P["rule"],
            "samples": ev_samples,
            "exhaustive": bool(P.get("exhaustive", {}).get(tier, False)),
            "architectures_run": sorted(per_arch.keys()),
            "per_arch": per_arch,
            "per_op": {"%s<%s>" % k: v for k, v in sorted(ops.items())},
            "not_accepted": sorted(na)[:400],
            "info": infos,
            "jobs": ["%s/%s" % (j["unit"], j.get("variant", "min")) for j in jobs],
            "known_findings_observed": {kid: d["n"] for kid, d in seen_known.items()},
            "violation_counts": violcounts,
            "inconclusive": inconclusive,
            "sanitizer_informational_ub_sites": sorted(set(info_ub))[:50],
        }
        evd = {"property_id": prop, "tier": tier, "seed": int(seed), "level": P.get("level", "exploration"), "coverage": cov,
               "assumptions": P.get("assumptions", []), "wall_s": round(time.time() - t0, 2), "violations": len(unlisted),
               "verdict": "violated" if unlisted else ("inconclusive" if inconclusive else "held on what was observed")}
        os.makedirs(EVID, exist_ok=True)
        with open(os.path.join(EVID, prop + ".json"), "w") as f:
            json.dump(evd, f, indent=1, sort_keys=True)
        print("[%s] tier=%s seed=%s evaluations=%d distinct_cells=%d archs=%d known=%d unlisted=%d inconclusive=%d wall=%.0fs -> exit %d" % (
            prop, tier, seed, evals_total, cells_total, len(per_arch), len(seen_known), len(unlisted), len(inconclusive), time.time() - t0, rc))
    pool.shutdown()
    return rc, unlisted


def cmd_replay(path):
    with open(path) as f:
        r = json.load(f)
    extra = []
    if r["op"] not in ("?", "sanitizer", "static_assert"):
        extra += ["--op", r["op"]]
    if r["type"] != "?":
        extra += ["--type", r["type"]]
    rc, unl = run_property(r["property"], r["tier"], r["seed"], only_archs=[r["arch"]], extra_args=extra, replay=True)
    want = "|".join([r["property"], r["op"], r["type"], r["cls"]])
    if want in unl:
        print("REPRODUCED %s witness=%s" % (want, json.dumps(unl[want]["w"])))
        return 1
    print("NOT REPRODUCED %s (other violations: %s)" % (want, list(unl.keys())[:5]))
    return 0 if not unl else 1


def cmd_build_all(tier):
    pool = ThreadPoolExecutor(NCPU)
    bad = 0
    done = set()
    for prop in PROPS:
        for j in jobs_for(prop, tier):
            k = (j["unit"], j.get("variant", "min"))
            if k in done:
                continue
            done.add(k)
            t0 = time.time()
            bdir, failed = build(k[0], k[1], selected_archs(j, None), pool)
            log("[build-all] %s/%s %.0fs %s" % (k[0], k[1], time.time() - t0, "FAILED " + ",".join(failed) if failed else "ok"))
            bad += len(failed)
    return 0 if not bad else 2


def cmd_baseline_off():
    """Repository's own test-suite, built from the working tree with the guard OFF."""
    b = os.path.join(REPO, "_build")
    r = subprocess.run(["cmake", "-G", "Ninja", "-S", REPO, "-B", b, "-DBUILD_TESTS=ON", "-DCMAKE_BUILD_TYPE=RelWithDebInfo", "-DCMAKE_CXX_FLAGS=-Wno-error"])
    if r.returncode:
        return 2
    r = subprocess.run(["cmake", "--build", b, "-j", str(NCPU)])
    if r.returncode:
        return 2
    r = subprocess.run(["ctest", "--test-dir", b, "-j8", "--timeout", "900", "--output-junit", os.path.join(b, "junit.xml")])
    return r.returncode


def main(argv):
    if not argv:
        print(__doc__)
        return 2
    cmd = argv[0]
    tier = os.environ.get("VERIF_TIER", "quick")
    only = None
    scale = None
    i = 1
    rest = []
    while i < len(argv):
        if argv[i] == "--tier":
            tier = argv[i + 1]
            i += 2
        elif argv[i] == "--arch":
            only = argv[i + 1].split(",")
            i += 2
        elif argv[i] == "--scale":
            scale = float(argv[i + 1])
            i += 2
        else:
            rest.append(argv[i])
            i += 1
    seed = int(os.environ.get("VERIF_SEED", "1") or "1")
    if tier not in ("quick", "thorough"):
        tier = "quick"
    try:
        if cmd == "build-all":
            return cmd_build_all(tier)
        if cmd == "replay":
            return cmd_replay(rest[0])
        if cmd == "baseline-off":
            return cmd_baseline_off()
        if cmd in PROPS:
            rc, _ = run_property(cmd, tier, seed, only, scale)
            return rc
    except Exception as e:  # harness failure
        import traceback
        traceback.print_exc()
        print("INCONCLUSIVE harness failure: %r" % (e,))
        return 2
    print("unknown command", cmd)
    return 2
