#!/bin/bash
# usage: tryq.sh <lanes> <<< "dir[@arch,arch] id [id...]" lines   -- runs try_seeded_alt.sh for each line, <lanes> at a time; result in <dir>/try.log
lanes=$1
here=$(cd "$(dirname "$0")" && pwd)
xargs -P "$lanes" -L 1 bash -c 'd=${0%%@*}; a=${0#*@}; [ "$a" = "$0" ] && a=; export ARCHS=$a; '"$here"'/try_seeded_alt.sh $d/patch.diff "$@" > $d/try.log 2>&1; echo "=== $d"; grep -E "VIOLATION|^\[C|INCONCL|APPLY" $d/try.log | cut -c1-200 | head -6'
