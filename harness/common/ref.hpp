// Reference models evaluated by scalar code compiled in its own TU with baseline
// flags (-msse2, -ffp-contract=off): never fused, never vectorised with the flags
// under test, never using xsimd.
#pragma once
#include <cstdint>
namespace ref
{
#define REF_DECL(T)                                 \
    T add(T, T);                                    \
    T sub(T, T);                                    \
    T mul(T, T);                                    \
    T div(T, T);                                    \
    T sqrt(T);                                      \
    T fma(T, T, T);                                 \
    T muladd(T, T, T); /* (a*b rounded) + c */      \
    T nextafter(T, T);                              \
    T frexp(T, int*);                               \
    T ldexp(T, int);                                \
    T ceil(T);                                      \
    T floor(T);                                     \
    T trunc(T);                                     \
    T round(T);                                     \
    T nearbyint(T);                                 \
    T rint(T);                                      \
    T fmod(T, T);                                   \
    bool is_integer(T);                             \
    bool is_even_integer(T);                        \
    bool is_odd_integer(T);
    REF_DECL(float)
    REF_DECL(double)
#undef REF_DECL
    int rounding_mode_is_nearest();
}
