// Common harness for the per-architecture monitor units (see DESIGN.md section 2).
// One unit TU = one architecture (VARCH) = one process.  The unit runs real xsimd
// kernels on generated operands; monitors compare every lane against a reference
// model and report through the event log (newline-terminated JSON, write(2)).
#pragma once
#include <xsimd/xsimd.hpp>
#include <algorithm>
#include <cfenv>
#include <cinttypes>
#include <cmath>
#include <csetjmp>
#include <csignal>
#include <cstdarg>
#include <cstdint>
#include <cstdio>
#include <cstdlib>
#include <cstring>
#include <fcntl.h>
#include <limits>
#include <map>
#include <string>
#include <type_traits>
#include <unistd.h>
#include <vector>

#ifndef VARCH
#error "VARCH must name the architecture tag under test"
#endif
#ifndef VARCH_NAME
#define VARCH_NAME "unknown"
#endif

namespace vh
{
    namespace xs = xsimd;
    using ARCH = VARCH;

    // ---------------------------------------------------------------- rng
    struct Rng
    {
        uint64_t s;
        explicit Rng(uint64_t x)
            : s(x)
        {
        }
        uint64_t next()
        {
            uint64_t z = (s += 0x9e3779b97f4a7c15ull);
            z = (z ^ (z >> 30)) * 0xbf58476d1ce4e5b9ull;
            z = (z ^ (z >> 27)) * 0x94d049bb133111ebull;
            return z ^ (z >> 31);
        }
        uint64_t below(uint64_t n) { return next() % n; }
        double unit() { return (double)(next() >> 11) * (1.0 / 9007199254740992.0); }
    };
    inline uint64_t mix(uint64_t a, uint64_t b)
    {
        Rng r(a ^ (b * 0x9e3779b97f4a7c15ull + 0x7f4a7c15ull));
        r.next();
        return r.next();
    }
    inline uint64_t strhash(const char* s)
    {
        uint64_t h = 1469598103934665603ull;
        for (; *s; ++s)
            h = (h ^ (unsigned char)*s) * 1099511628211ull;
        return h;
    }

    // ---------------------------------------------------------------- type names / bit views
    template <class T>
    struct tn;
#define VH_TN(T, s)                                  \
    template <>                                      \
    struct tn<T>                                     \
    {                                                \
        static const char* name() { return s; }      \
    };
    VH_TN(int8_t, "i8")
    VH_TN(uint8_t, "u8")
    VH_TN(int16_t, "i16")
    VH_TN(uint16_t, "u16")
    VH_TN(int32_t, "i32")
    VH_TN(uint32_t, "u32")
    VH_TN(int64_t, "i64")
    VH_TN(uint64_t, "u64")
    VH_TN(float, "f32")
    VH_TN(double, "f64")
    VH_TN(bool, "bool")
    template <class T>
    const char* tname() { return tn<T>::name(); }

    template <size_t S>
    struct uint_of;
    template <>
    struct uint_of<1>
    {
        using type = uint8_t;
    };
    template <>
    struct uint_of<2>
    {
        using type = uint16_t;
    };
    template <>
    struct uint_of<4>
    {
        using type = uint32_t;
    };
    template <>
    struct uint_of<8>
    {
        using type = uint64_t;
    };
    template <class T>
    using bits_t = typename uint_of<sizeof(T)>::type;
    template <class T>
    bits_t<T> bits(T v)
    {
        bits_t<T> u;
        memcpy(&u, &v, sizeof u);
        return u;
    }
    template <class T>
    T frombits(bits_t<T> u)
    {
        T v;
        memcpy(&v, &u, sizeof v);
        return v;
    }
    template <class T>
    std::string hexv(T v)
    {
        char b[32];
        snprintf(b, sizeof b, "0x%llx", (unsigned long long)bits(v));
        return b;
    }
    inline std::string hexv(bool v) { return v ? "1" : "0"; }
    template <class T>
    std::string hexarr(const T* p, size_t n)
    {
        std::string s = "[";
        for (size_t i = 0; i < n; ++i)
        {
            if (i)
                s += ",";
            s += "\"" + hexv(p[i]) + "\"";
        }
        return s + "]";
    }

    // ---------------------------------------------------------------- context
    struct Ctx
    {
        uint64_t seed = 1;
        int tier = 0; // 0 quick, 1 thorough
        int fd = 1;
        const char* only_op = nullptr; // replay filter
        const char* only_type = nullptr;
        const char* prop = nullptr; // when set: only monitors of this property report
        const char* mode = "";
        double scale = 1.0; // multiplies iteration budgets
    };
    inline Ctx& ctx()
    {
        static Ctx c;
        return c;
    }
    inline char g_case[768] = "startup";
    // cheap per-call case marker: pointers only, formatted lazily by the crash handler
    inline const char* volatile g_case_op = nullptr;
    inline const char* volatile g_case_type = nullptr;
    inline const void* volatile g_case_data = nullptr;
    inline volatile size_t g_case_len = 0;
    inline void mark_case(const char* op, const char* type, const void* data, size_t len)
    {
        g_case_op = op;
        g_case_type = type;
        g_case_data = data;
        g_case_len = len;
    }
    inline void emit(const std::string& line)
    {
        std::string l = line + "\n";
        const char* p = l.data();
        size_t n = l.size();
        while (n)
        {
            ssize_t w = ::write(ctx().fd, p, n);
            if (w <= 0)
                break;
            p += w;
            n -= (size_t)w;
        }
    }
    inline std::string jstr(const std::string& s)
    {
        std::string o = "\"";
        for (char c : s)
        {
            if (c == '"' || c == '\\')
            {
                o += '\\';
                o += c;
            }
            else if ((unsigned char)c < 0x20)
                o += ' ';
            else
                o += c;
        }
        return o + "\"";
    }
    inline void set_case(const char* fmt, ...)
    {
        va_list ap;
        va_start(ap, fmt);
        vsnprintf(g_case, sizeof g_case, fmt, ap);
        va_end(ap);
        g_case_op = nullptr;
    }

    // ---------------------------------------------------------------- per-op statistics
    // A "cell" is a distinct (operand-class tuple, lane) combination of one op on one
    // type; cells are counted in a bitmap so the cost per evaluation is one OR.
    struct OpStat
    {
        std::string prop, op, type;
        long evals = 0;
        long viol = 0;
        bool on = true;
        std::vector<uint64_t> cells;
        std::vector<std::string> samples;
        long ncells() const
        {
            long n = 0;
            for (uint64_t w : cells)
                n += __builtin_popcountll(w);
            return n;
        }
        void cell(uint64_t idx)
        {
            idx &= (1u << 22) - 1;
            size_t w = idx >> 6;
            if (w >= cells.size())
                cells.resize(w + 1, 0);
            cells[w] |= 1ull << (idx & 63);
        }
        bool want_sample() const { return samples.size() < 2; }
    };
    inline std::vector<OpStat*>& registry()
    {
        static std::vector<OpStat*> r;
        return r;
    }
    inline bool selected(const char* prop, const char* op, const char* type);
    inline OpStat& reg(const char* prop, const char* op, const char* type)
    {
        for (OpStat* e : registry())
            if (e->prop == prop && e->op == op && e->type == type)
                return *e;
        OpStat* s = new OpStat;
        s->prop = prop;
        s->op = op;
        s->type = type;
        s->on = selected(prop, op, type);
        registry().push_back(s);
        return *s;
    }
    inline bool selected(const char* prop, const char* op, const char* type)
    {
        const Ctx& c = ctx();
        if (c.prop && strcmp(c.prop, prop) != 0)
            return false;
        if (c.only_op && strcmp(c.only_op, op) != 0)
            return false;
        if (c.only_type && strcmp(c.only_type, type) != 0)
            return false;
        return true;
    }

    struct ViolKey
    {
        long count = 0;
    };
    inline std::map<std::string, ViolKey>& violmap()
    {
        static std::map<std::string, ViolKey> m;
        return m;
    }
    // Report one violated oracle evaluation.  cls = name of the first matching
    // input-class predicate ("unclassified" if none); witness = JSON object text.
    inline void viol(OpStat& st, const char* cls, const std::string& witness)
    {
        st.viol++;
        std::string key = st.prop + "|" + st.op + "|" + st.type + "|" + cls;
        ViolKey& k = violmap()[key];
        if (k.count++ < 3)
            emit("{\"t\":\"viol\",\"prop\":" + jstr(st.prop) + ",\"op\":" + jstr(st.op) + ",\"type\":" + jstr(st.type)
                 + ",\"cls\":" + jstr(cls) + ",\"arch\":" + jstr(VARCH_NAME) + ",\"w\":" + witness + "}");
    }
    inline void note_na(const char* prop, const char* op, const char* type, const char* why)
    {
        if (ctx().prop && strcmp(ctx().prop, prop) != 0)
            return;
        static std::map<std::string, int> seen; // one line per (prop, op, type)
        if (seen[std::string(prop) + "|" + op + "|" + type]++)
            return;
        emit(std::string("{\"t\":\"na\",\"prop\":") + jstr(prop) + ",\"op\":" + jstr(op) + ",\"type\":" + jstr(type) + ",\"why\":" + jstr(why) + "}");
    }
    inline void info(const std::string& key, const std::string& json)
    {
        emit("{\"t\":\"info\",\"key\":" + jstr(key) + ",\"v\":" + json + "}");
    }

    // ---------------------------------------------------------------- crash handler
    inline sigjmp_buf g_jmp;
    inline volatile sig_atomic_t g_jmp_armed = 0;
    inline volatile sig_atomic_t g_fault_sig = 0;
    inline void on_signal(int sig)
    {
        if (g_jmp_armed && (sig == SIGSEGV || sig == SIGBUS))
        {
            g_fault_sig = sig;
            g_jmp_armed = 0;
            siglongjmp(g_jmp, 1);
        }
        char buf[1024];
        int n = snprintf(buf, sizeof buf, "{\"t\":\"crash\",\"sig\":%d,\"arch\":\"%s\",\"case\":\"", sig, VARCH_NAME);
        if (g_case_op)
        {
            n += snprintf(buf + n, sizeof buf - n, "%s<%s> operands=", (const char*)g_case_op, g_case_type ? (const char*)g_case_type : "");
            const unsigned char* d = (const unsigned char*)g_case_data;
            for (size_t i = 0; d && i < g_case_len && i < 192 && n < 900; ++i)
                n += snprintf(buf + n, sizeof buf - n, "%02x", d[i]);
        }
        else
            for (const char* p = g_case; *p && n < 1000; ++p)
                buf[n++] = (*p == '"' || *p == '\\' || (unsigned char)*p < 0x20) ? ' ' : *p;
        n += snprintf(buf + n, sizeof buf - n, "\"}\n");
        ssize_t w = ::write(ctx().fd, buf, (size_t)n);
        (void)w;
        _exit(70);
    }
    inline void install_handlers()
    {
        static char altstack[1 << 16];
        stack_t ss;
        ss.ss_sp = altstack;
        ss.ss_size = sizeof altstack;
        ss.ss_flags = 0;
        sigaltstack(&ss, nullptr);
        struct sigaction sa;
        memset(&sa, 0, sizeof sa);
        sa.sa_handler = on_signal;
        sa.sa_flags = SA_ONSTACK | SA_NODEFER;
        for (int s : { SIGSEGV, SIGBUS, SIGILL, SIGFPE, SIGABRT })
            sigaction(s, &sa, nullptr);
    }

    // ---------------------------------------------------------------- hostile operand generators
    // integer: returns value and a 4-bit class id
    template <class T>
    T hostile_int(Rng& r, int& cls)
    {
        using U = typename std::make_unsigned<T>::type;
        const int B = sizeof(T) * 8;
        uint64_t k = r.next();
        int sel = k & 15;
        k >>= 4;
        U v;
        switch (sel)
        {
        case 0: v = 0; break;
        case 1: v = (U)-1; break;
        case 2: v = (U)1; break;
        case 3: v = (U)((U)1 << (B - 1)); break; // MIN (signed) / 2^(B-1)
        case 4: v = (U)(((U)1 << (B - 1)) - 1); break; // MAX (signed)
        case 5: v = (U)(((U)1 << (B - 1)) + 1); break; // MIN+1
        case 6: v = (U)((U)1 << (k % B)); break;
        case 7: v = (U)(((U)1 << (k % B)) - 1); break;
        case 8: v = (U)(~((U)1 << (k % B))); break;
        case 9: v = (U)(k % 17); break;
        case 10: v = (U)(0 - (k % 17)); break;
        case 11: v = (U)(((U)1 << (k % B)) + 1); break;
        default: v = (U)r.next(); sel = 12 + (sel & 3) % 2; break; // random bit patterns
        }
        cls = sel;
        T t;
        memcpy(&t, &v, sizeof(T));
        return t;
    }
    // floating point: special lattice / random bit patterns / moderate / near 2^mant
    template <class T>
    T hostile_fp(Rng& r, int& cls)
    {
        using U = bits_t<T>;
        using L = std::numeric_limits<T>;
        static const T sp[] = { (T)0, (T)-0.0, (T)1, (T)-1, L::infinity(), -L::infinity(), L::quiet_NaN(), L::min(),
                                -L::min(), L::denorm_min(), -L::denorm_min(), L::max(), -L::max(), (T)0.5, (T)-0.5, (T)2,
                                (T)1.5, (T)2.5, (T)-2.5, L::epsilon(), (T)3, L::min() * (T)4, L::max() / (T)4, (T)0.75 };
        const int nsp = sizeof(sp) / sizeof(sp[0]);
        uint64_t k = r.next();
        int sel = k % 20;
        if (sel < 8)
        {
            int i = (int)(r.next() % nsp);
            cls = i; // 0..23
            return sp[i];
        }
        if (sel < 12)
        {
            U u = (U)r.next();
            cls = 24 + (int)((u >> (sizeof(T) * 8 - 2)) & 3); // by sign and top exponent bit
            return frombits<T>(u);
        }
        if (sel < 16)
        {
            cls = 28;
            return (T)((int64_t)(r.next() % 20001) - 10000) / (T)16;
        }
        if (sel < 18)
        { // neighbourhood of 2^(mant-1) .. 2^(mant+1): k, k+0.5
            int mant = L::digits;
            T base = std::ldexp((T)1, mant - 1 + (int)(r.next() % 5) - 3);
            T v = base + (T)(int)(r.next() % 9) - 4 + (T)0.5 * (T)(r.next() & 1);
            cls = 29;
            return (r.next() & 1) ? -v : v;
        }
        { // subnormals and tiny normals with random mantissa
            U u = (U)r.next();
            U mantmask = ((U)1 << (L::digits - 1)) - 1;
            U e = (U)(r.next() % 3); // exponent field 0,1,2
            U sgn = (U)(r.next() & 1) << (sizeof(T) * 8 - 1);
            cls = 30 + (int)(e == 0 ? 0 : 1);
            return frombits<T>((U)(sgn | (e << (L::digits - 1)) | (u & mantmask)));
        }
    }
    template <class T, class = void>
    struct Hostile;
    template <class T>
    struct Hostile<T, typename std::enable_if<std::is_integral<T>::value>::type>
    {
        static T get(Rng& r, int& c) { return hostile_int<T>(r, c); }
    };
    template <class T>
    struct Hostile<T, typename std::enable_if<std::is_floating_point<T>::value>::type>
    {
        static T get(Rng& r, int& c) { return hostile_fp<T>(r, c); }
    };
    template <class T>
    T hostile(Rng& r, int& c) { return Hostile<T>::get(r, c); }

    // equality helpers
    template <class T>
    bool same_bits(T a, T b) { return memcmp(&a, &b, sizeof a) == 0; }
    template <class T>
    bool same_fp(T a, T b) // bitwise, any NaN equals any NaN
    {
        if (a != a && b != b)
            return true;
        return memcmp(&a, &b, sizeof a) == 0;
    }
    template <class T>
    bool same_num(T a, T b) // numeric, sign of zero free, NaN==NaN
    {
        if (a != a && b != b)
            return true;
        return a == b;
    }

    // ---------------------------------------------------------------- main glue
    void unit_main(); // provided by the unit

    inline long budget(long quick, long thorough)
    {
        double v = (ctx().tier ? (double)thorough : (double)quick) * ctx().scale;
        return v < 1 ? 1 : (long)v;
    }

    // stride of the "exhaustive" enumerations: 1 in the thorough tier, quick_stride in the quick tier, and
    // both thinned by 1/scale when a job asks for a reduced run (--scale < 1: sanitizer and compiler-variant jobs)
    inline uint64_t sweep_stride(uint64_t quick_stride)
    {
        uint64_t s = ctx().tier ? 1 : quick_stride;
        if (ctx().scale < 1.0)
        {
            uint64_t k = (uint64_t)(1.0 / ctx().scale + 0.5);
            s *= (k | 1); // keep it odd so that it stays coprime with the power-of-two spaces
        }
        return s;
    }

    inline int harness_main(int argc, char** argv)
    {
        Ctx& c = ctx();
        for (int i = 1; i < argc; ++i)
        {
            std::string a = argv[i];
            auto val = [&]() -> const char*
            { return (i + 1 < argc) ? argv[++i] : ""; };
            if (a == "--seed")
                c.seed = strtoull(val(), nullptr, 0);
            else if (a == "--tier")
                c.tier = strcmp(val(), "thorough") == 0;
            else if (a == "--out")
                c.fd = open(val(), O_WRONLY | O_CREAT | O_TRUNC, 0644);
            else if (a == "--op")
                c.only_op = val();
            else if (a == "--type")
                c.only_type = val();
            else if (a == "--prop")
                c.prop = val();
            else if (a == "--mode")
                c.mode = val();
            else if (a == "--scale")
                c.scale = atof(val());
        }
        if (c.fd < 0)
        {
            fprintf(stderr, "cannot open output\n");
            return 2;
        }
        install_handlers();
        if (fegetround() != FE_TONEAREST)
        {
            fprintf(stderr, "rounding mode is not to-nearest\n");
            return 2;
        }
        emit(std::string("{\"t\":\"start\",\"arch\":") + jstr(VARCH_NAME) + ",\"seed\":" + std::to_string(c.seed) + ",\"tier\":" + std::to_string(c.tier) + "}");
        unit_main();
        for (OpStat* s : registry())
        {
            if (!s->evals && !s->viol)
                continue;
            std::string smp = "[";
            for (size_t i = 0; i < s->samples.size(); ++i)
                smp += (i ? "," : "") + s->samples[i];
            smp += "]";
            emit("{\"t\":\"op\",\"prop\":" + jstr(s->prop) + ",\"op\":" + jstr(s->op) + ",\"type\":" + jstr(s->type) + ",\"evals\":" + std::to_string(s->evals)
                 + ",\"cells\":" + std::to_string(s->ncells()) + ",\"viol\":" + std::to_string(s->viol) + ",\"samples\":" + smp + "}");
        }
        for (auto& kv : violmap())
            emit("{\"t\":\"violcount\",\"key\":" + jstr(kv.first) + ",\"n\":" + std::to_string(kv.second.count) + "}");
        emit("{\"t\":\"done\"}");
        return 0;
    }
}

#define VH_MAIN()                                                      \
    int main(int argc, char** argv) { return vh::harness_main(argc, argv); }
