// "Does the library accept this (arch, type, op)?"  Decided at the kernel-overload level on
// the unsigned counterpart of T (DESIGN.md 2.2): the public functions are not SFINAE friendly,
// and the signed 8/16-bit overloads forward to the unsigned ones and hard-error.
#pragma once
#include "vh.hpp"
namespace vh
{
    template <class T, class = void>
    struct unsigned_image
    {
        using type = T; // float/double: themselves
    };
    template <class T>
    struct unsigned_image<T, typename std::enable_if<std::is_integral<T>::value>::type>
    {
        using type = typename std::make_unsigned<T>::type;
    };
    template <class T>
    using uimg_t = typename unsigned_image<T>::type;

    // constant-mask swizzle
    template <class T, class A, class M, class = void>
    struct has_cswz_k : std::false_type
    {
    };
    template <class T, class A, class M>
    struct has_cswz_k<T, A, M, std::void_t<decltype(xs::kernel::swizzle<A>(std::declval<xs::batch<T, A> const&>(), M {}, A {}))>> : std::true_type
    {
    };
    template <class T, class A, class M>
    struct has_cswz : has_cswz_k<uimg_t<T>, A, M>
    {
    };
    // run-time (batch) index swizzle
    template <class T, class A, class = void>
    struct has_dswz_k : std::false_type
    {
    };
    template <class T, class A>
    struct has_dswz_k<T, A, std::void_t<decltype(xs::kernel::swizzle<A>(std::declval<xs::batch<T, A> const&>(), std::declval<xs::batch<xs::as_unsigned_integer_t<T>, A>>(), A {}))>> : std::true_type
    {
    };
    template <class T, class A>
    struct has_dswz : has_dswz_k<uimg_t<T>, A>
    {
    };

    // generic reduce(f, x): needs the split_high swizzle at every level
    template <class T, class A, unsigned L, bool = (L > 1)>
    struct reduce_ok;
    template <class T, class A, unsigned L>
    struct reduce_ok<T, A, L, false> : std::true_type
    {
    };
    template <class T, class A, unsigned L>
    struct reduce_ok<T, A, L, true>
    {
        using IT = xs::as_unsigned_integer_t<T>;
        using M = decltype(xs::make_batch_constant<IT, xs::kernel::detail::split_high<IT, L / 2>, A>());
        static constexpr bool value = has_cswz<T, A, M>::value && reduce_ok<T, A, L / 2>::value;
    };
    template <class T, class A>
    struct has_reduce : std::integral_constant<bool, reduce_ok<T, A, xs::batch<T, A>::size>::value>
    {
    };
}
