#include "ref.hpp"
#include <cfenv>
#include <cmath>
namespace ref
{
#define REF_DEF(T)                                                                        \
    T add(T a, T b) { volatile T x = a, y = b; return x + y; }                            \
    T sub(T a, T b) { volatile T x = a, y = b; return x - y; }                            \
    T mul(T a, T b) { volatile T x = a, y = b; return x * y; }                            \
    T div(T a, T b) { volatile T x = a, y = b; return x / y; }                            \
    T sqrt(T a) { volatile T x = a; return std::sqrt(x); }                                \
    T fma(T a, T b, T c) { return std::fma(a, b, c); }                                    \
    T muladd(T a, T b, T c) { volatile T x = a, y = b; volatile T p = x * y; volatile T z = c; return p + z; } \
    T nextafter(T a, T b) { return std::nextafter(a, b); }                                \
    T frexp(T a, int* e) { return std::frexp(a, e); }                                     \
    T ldexp(T a, int e) { return std::ldexp(a, e); }                                      \
    T ceil(T a) { return std::ceil(a); }                                                  \
    T floor(T a) { return std::floor(a); }                                                \
    T trunc(T a) { return std::trunc(a); }                                                \
    T round(T a) { return std::round(a); }                                                \
    T nearbyint(T a) { return std::nearbyint(a); }                                        \
    T rint(T a) { return std::rint(a); }                                                  \
    T fmod(T a, T b) { return std::fmod(a, b); }                                          \
    bool is_integer(T a) { return std::isfinite(a) && std::trunc(a) == a; }               \
    bool is_even_integer(T a) { return is_integer(a) && std::fmod(a, (T)2) == (T)0; }      \
    bool is_odd_integer(T a) { return is_integer(a) && std::fabs(std::fmod(a, (T)2)) == (T)1; }
    REF_DEF(float)
    REF_DEF(double)
    int rounding_mode_is_nearest() { return std::fegetround() == FE_TONEAREST; }
}
