// Two-source shuffle packs that sit on, or one index away from, the shapes the per-architecture kernels
// recognise as "in-lane" fast paths (x,y interleaved inside each 128-bit lane, either operand order).
// A guard that lost one bound sends a pack of the second kind down the fast path: the random families
// never get near those shapes (1024 of 16^8 packs for 8 doubles).
#pragma once
#include <cstddef>
#include <cstdint>

namespace vh
{
    constexpr uint64_t sg_mix(uint64_t z)
    {
        z = (z ^ (z >> 30)) * 0xbf58476d1ce4e5b9ull;
        z = (z ^ (z >> 27)) * 0x94d049bb133111ebull;
        return z ^ (z >> 31);
    }
    // Shape 0: pairs  (x,y) per 2 lanes        -- _mm*_shuffle_pd(x, y)
    // Shape 1: pairs  (y,x)                    -- _mm*_shuffle_pd(y, x)
    // Shape 2: quads  (x,x,y,y) per 4 lanes, the same in-quad selection in every quad -- _mm*_shuffle_ps(x, y)
    // Shape 3: quads  (y,y,x,x)
    // Variant selects which in-lane elements the base takes.
    // Pos >= n: the base pack itself.  Otherwise lane Pos is perturbed:
    // Kind 0: other source, same index;  Kind 1: same source, same offset in the next 128-bit group;
    // Kind 2: same source, next element inside the group (stays on the fast path, different immediate)
    template <unsigned Shape, unsigned Variant, size_t Pos, unsigned Kind>
    struct SNear
    {
        static constexpr size_t base(size_t i, size_t n)
        {
            const bool quad = Shape >= 2 && n >= 4;
            const size_t grp = quad ? 4 : 2;
            const size_t sel = quad ? (sg_mix(Variant * 977 + (i % 4) * 31 + 7) % 4) : (sg_mix(Variant * 977 + i * 31 + 3) % 2);
            const bool from_y = (quad ? ((i % 4) >= 2) : ((i % 2) == 1)) != ((Shape & 1) != 0);
            return (i / grp) * grp + sel + (from_y ? n : 0);
        }
        static constexpr size_t get(size_t i, size_t n)
        {
            const size_t b = base(i, n);
            if (i != Pos)
                return b;
            const bool quad = Shape >= 2 && n >= 4;
            const size_t grp = quad ? 4 : 2;
            const size_t src = b >= n ? n : 0, idx = b % n;
            switch (Kind)
            {
            case 0:
                return idx + (src ? 0 : n);
            case 1:
                return src + (idx + grp) % n;
            default:
                return src + (idx / grp) * grp + (idx % grp + 1) % grp;
            }
        }
    };
}
