// Generic "run the kernel, compare every lane with the model" monitors shared by the
// exact-semantics units.  Each call also feeds the C13 lane-independence monitor:
// f(v)[k] must equal f(broadcast(v[k]))[0] (and all lanes of the broadcast result agree).
#pragma once
#include "vh.hpp"

namespace vh
{
    template <class T>
    struct Ops
    {
        static constexpr size_t N = xs::batch<T, ARCH>::size;
        alignas(64) T a[N], b[N], c[N];
        int ca[N], cb[N], cc[N];
        void fill_hostile(Rng& rng)
        {
            for (size_t i = 0; i < N; ++i)
            {
                a[i] = hostile<T>(rng, ca[i]);
                b[i] = hostile<T>(rng, cb[i]);
                c[i] = hostile<T>(rng, cc[i]);
            }
        }
    };

    template <class T>
    inline std::string wit3(const Ops<T>& in, size_t i)
    {
        return "\"a\":\"" + hexv(in.a[i]) + "\",\"b\":\"" + hexv(in.b[i]) + "\",\"c\":\"" + hexv(in.c[i]) + "\",\"lane\":" + std::to_string(i);
    }
    template <class T>
    inline unsigned cellidx(const Ops<T>& in, size_t i, int arity)
    {
        return (unsigned)((i << 15) | (unsigned)in.ca[i] | (arity > 1 ? (unsigned)in.cb[i] << 5 : 0) | (arity > 2 ? (unsigned)in.cc[i] << 10 : 0));
    }

    // value-returning op.  f:(B,B,B)->batch<R,ARCH>; ref:(T,T,T)->R; valid:(T,T,T)->bool;
    // cmp:(R got,R exp)->bool; cls:(T,T,T)->const char*
    template <class T, class R, class F, class RF, class V, class C, class K>
    inline void check_val(OpStat& st, OpStat& li, int arity, const Ops<T>& in, F f, RF ref, V valid, C cmp, K cls, long it)
    {
        using B = xs::batch<T, ARCH>;
        using BR = xs::batch<R, ARCH>;
        constexpr size_t N = B::size;
        static_assert(BR::size == N, "same lane count");
        if (!st.on && !li.on)
            return;
        alignas(64) R o[N], o1[N];
        mark_case(st.op.c_str(), st.type.c_str(), &in, 3 * sizeof(in.a));
        B va = B::load_aligned(in.a), vb = B::load_aligned(in.b), vc = B::load_aligned(in.c);
        BR r = f(va, vb, vc);
        r.store_aligned(o);
        if (st.on)
        {
            for (size_t i = 0; i < N; ++i)
            {
                if (!valid(in.a[i], in.b[i], in.c[i]))
                    continue;
                R e = ref(in.a[i], in.b[i], in.c[i]);
                st.evals++;
                st.cell(cellidx(in, i, arity));
                if (!cmp(o[i], e))
                    viol(st, cls(in.a[i], in.b[i], in.c[i]), "{" + wit3(in, i) + ",\"got\":\"" + hexv(o[i]) + "\",\"exp\":\"" + hexv(e) + "\"}");
            }
            if (st.want_sample())
                st.samples.push_back("{\"a\":" + hexarr(in.a, N) + ",\"b\":" + hexarr(in.b, N) + ",\"c\":" + hexarr(in.c, N) + ",\"got\":" + hexarr(o, N) + "}");
        }
        if (li.on)
        {
            size_t k = (size_t)it % N;
            if (valid(in.a[k], in.b[k], in.c[k]))
            {
                BR r1 = f(B(in.a[k]), B(in.b[k]), B(in.c[k]));
                r1.store_aligned(o1);
                li.evals++;
                li.cell(cellidx(in, k, arity));
                bool bad = false;
                for (size_t i = 1; i < N; ++i)
                    if (!same_bits(o1[i], o1[0]) && !(o1[i] != o1[i] && o1[0] != o1[0])) // NaN payloads are not claimed
                        bad = true;
                // bitwise identity; any NaN equals any NaN only if both are NaN of the same op (payload not claimed)
                bool eq = same_bits(o1[0], o[k]) || (o1[0] != o1[0] && o[k] != o[k]);
                if (bad || !eq)
                    viol(li, "unclassified", "{" + wit3(in, k) + ",\"in_batch\":\"" + hexv(o[k]) + "\",\"broadcast\":" + hexarr(o1, N) + ",\"companions_a\":" + hexarr(in.a, N) + "}");
                if (li.want_sample())
                    li.samples.push_back("{\"lane\":" + std::to_string(k) + ",\"a\":" + hexarr(in.a, N) + ",\"in_batch\":\"" + hexv(o[k]) + "\",\"broadcast0\":\"" + hexv(o1[0]) + "\"}");
            }
        }
    }

    // predicate op: f:(B,B,B)->batch_bool<T,ARCH>; ref:(T,T,T)->bool
    template <class T, class F, class RF, class V, class K>
    inline void check_pred(OpStat& st, OpStat& li, int arity, const Ops<T>& in, F f, RF ref, V valid, K cls, long it)
    {
        using B = xs::batch<T, ARCH>;
        using BB = xs::batch_bool<T, ARCH>;
        constexpr size_t N = B::size;
        if (!st.on && !li.on)
            return;
        bool o[N], o1[N];
        mark_case(st.op.c_str(), st.type.c_str(), &in, 3 * sizeof(in.a));
        B va = B::load_aligned(in.a), vb = B::load_aligned(in.b), vc = B::load_aligned(in.c);
        BB r = f(va, vb, vc);
        r.store_unaligned(o);
        if (st.on)
        {
            for (size_t i = 0; i < N; ++i)
            {
                if (!valid(in.a[i], in.b[i], in.c[i]))
                    continue;
                bool e = ref(in.a[i], in.b[i], in.c[i]);
                st.evals++;
                st.cell(cellidx(in, i, arity));
                if (o[i] != e)
                    viol(st, cls(in.a[i], in.b[i], in.c[i]), "{" + wit3(in, i) + ",\"got\":" + (o[i] ? "true" : "false") + ",\"exp\":" + (e ? "true" : "false") + "}");
            }
            if (st.want_sample())
                st.samples.push_back("{\"a\":" + hexarr(in.a, N) + ",\"b\":" + hexarr(in.b, N) + ",\"got\":" + hexarr(o, N) + "}");
        }
        if (li.on)
        {
            size_t k = (size_t)it % N;
            if (valid(in.a[k], in.b[k], in.c[k]))
            {
                BB r1 = f(B(in.a[k]), B(in.b[k]), B(in.c[k]));
                r1.store_unaligned(o1);
                li.evals++;
                li.cell(cellidx(in, k, arity));
                bool bad = false;
                for (size_t i = 1; i < N; ++i)
                    if (o1[i] != o1[0])
                        bad = true;
                if (bad || o1[0] != o[k])
                    viol(li, "unclassified", "{" + wit3(in, k) + ",\"in_batch\":" + (o[k] ? "true" : "false") + ",\"broadcast\":" + hexarr(o1, N) + "}");
            }
        }
    }
}

#define VH_ST(prop, op) ([]() -> vh::OpStat& { static vh::OpStat& s = vh::reg(prop, op, vh::tname<T>()); return s; }())
