// C02 basic floating point (IEEE-exact per lane), C08 rounding, and the C13 monitor for both.
#include "../common/vcheck.hpp"
#include "../common/ref.hpp"
using namespace vh;

template <class T>
static bool is_sub(T x) { return x != 0 && std::fabs(x) < std::numeric_limits<T>::min(); }
template <class T>
static const char* cls_fp(T a, T b, T c)
{
    (void)c;
    if (a != a || b != b)
        return "nan_arg";
    if (is_sub(a))
        return "subnormal_arg";
    if (a == 0)
        return std::signbit(a) ? "neg_zero_arg" : "zero_arg";
    if (std::isinf(a))
        return "inf_arg";
    if (std::fabs(a) >= std::ldexp((T)1, std::numeric_limits<T>::digits))
        return "x_ge_2^mant";
    if (a < 0)
        return "negative_arg";
    return "unclassified";
}

#define LAM3(expr) [](B va, B vb, B vc) { (void)va; (void)vb; (void)vc; return (expr); }
#define REF3(expr) [](T x, T y, T z) { (void)x; (void)y; (void)z; return (expr); }
#define ALWAYS [](T, T, T) { return true; }
#define CLS(ar) [](T x, T y, T z) { return cls_fp<T>(x, (ar) > 1 ? y : x, z); }
#define CV(prop, op, ar, expr, refexpr, validexpr, cmp) \
    check_val<T, T>(VH_ST(prop, op), VH_ST("C13", op), ar, in, LAM3(expr), REF3((T)(refexpr)), REF3((bool)(validexpr)), cmp, CLS(ar), it)
#define CP(prop, op, ar, expr, refexpr) \
    check_pred<T>(VH_ST(prop, op), VH_ST("C13", op), ar, in, LAM3(expr), REF3((bool)(refexpr)), ALWAYS, CLS(ar), it)

template <class T>
static void unary_ops(const Ops<T>& in, long it)
{
    using B = xs::batch<T, ARCH>;
    using U = bits_t<T>;
    using I = xs::as_integer_t<T>;
    using BI = xs::batch<I, ARCH>;
    constexpr size_t N = B::size;
    auto SF = [](T g, T e) { return same_fp(g, e); };
    auto SB = [](T g, T e) { return same_bits(g, e); };
    auto SN = [](T g, T e) { return same_num(g, e); };
    const U SIGN = (U)1 << (sizeof(T) * 8 - 1);
    (void)SIGN;
    CV("C02", "sqrt", 1, xs::sqrt(va), ref::sqrt(x), true, SF);
    CV("C02", "neg", 1, -va, frombits<T>((U)(bits(x) ^ ((U)1 << (sizeof(T) * 8 - 1)))), true, SB);
    CV("C02", "abs", 1, xs::abs(va), frombits<T>((U)(bits(x) & ~((U)1 << (sizeof(T) * 8 - 1)))), true, SB);
    CV("C02", "fabs", 1, xs::fabs(va), frombits<T>((U)(bits(x) & ~((U)1 << (sizeof(T) * 8 - 1)))), true, SB);
    CV("C02", "bitwise_not", 1, ~va, frombits<T>((U)~bits(x)), true, SB);
    CV("C02", "bitofsign", 1, xs::bitofsign(va), frombits<T>((U)(bits(x) & ((U)1 << (sizeof(T) * 8 - 1)))), true, SB);
    CP("C02", "isnan", 1, xs::isnan(va), x != x);
    CP("C02", "isinf", 1, xs::isinf(va), x == std::numeric_limits<T>::infinity() || x == -std::numeric_limits<T>::infinity());
    CP("C02", "isfinite", 1, xs::isfinite(va), x == x && x != std::numeric_limits<T>::infinity() && x != -std::numeric_limits<T>::infinity());
    CP("C02", "is_flint", 1, xs::is_flint(va), ref::is_integer(x));
    CP("C02", "is_even", 1, xs::is_even(va), ref::is_even_integer(x));
    CP("C02", "is_odd", 1, xs::is_odd(va), ref::is_odd_integer(x));
    CV("C02", "sign", 1, xs::sign(va), (x != x) ? x : (T)((x > 0) - (x < 0)), true, SN);
    CV("C02", "signnz", 1, xs::signnz(va), (bits(x) >> (sizeof(T) * 8 - 1)) ? (T)-1 : (T)1, x == x && x != 0, SB);
    // frexp: mantissa bit-exact for every input (+-0, +-inf and NaN come back unchanged, as std::frexp returns them);
    // exponent exact for finite inputs (0 for zeros; C leaves it unspecified for inf/NaN, so it is not looked at there)
    {
        OpStat& st = VH_ST("C02", "frexp");
        if (st.on || VH_ST("C13", "frexp").on)
        {
            alignas(64) T o[N];
            alignas(64) I oe[N];
            mark_case("frexp", tname<T>(), &in, sizeof(in.a));
            BI e;
            B m = xs::frexp(B::load_aligned(in.a), e);
            m.store_aligned(o);
            e.store_aligned(oe);
            for (size_t i = 0; i < N; ++i)
            {
                T x = in.a[i];
                const bool fin = (x == x) && !std::isinf(x);
                int ee = 0;
                T em = ref::frexp(x, &ee);
                if (!st.on)
                    break;
                st.evals++;
                st.cell(cellidx(in, i, 1));
                if (!same_fp(o[i], em) || (fin && (long long)oe[i] != ee))
                    viol(st, cls_fp<T>(x, x, x), "{" + wit3(in, i) + ",\"got_m\":\"" + hexv(o[i]) + "\",\"got_e\":" + std::to_string((long long)oe[i]) + ",\"exp_m\":\"" + hexv(em) + "\",\"exp_e\":" + std::to_string(ee) + "}");
            }
            // C13: lane k among these companions versus the same value broadcast (mantissa and exponent bit-identical)
            OpStat& li = VH_ST("C13", "frexp");
            if (li.on)
            {
                const size_t k = (size_t)it % N;
                BI eb;
                B mb = xs::frexp(B(in.a[k]), eb);
                li.evals++;
                li.cell(cellidx(in, k, 1));
                const bool fin = (in.a[k] == in.a[k]) && !std::isinf(in.a[k]);
                if (!same_fp(mb.get(0), o[k]) || (fin && eb.get(0) != oe[k]))
                    viol(li, "lane_dependence", "{" + wit3(in, k) + ",\"in_batch_m\":\"" + hexv(o[k]) + "\",\"in_batch_e\":" + std::to_string((long long)oe[k]) + ",\"broadcast_m\":\"" + hexv(mb.get(0)) + "\",\"broadcast_e\":" + std::to_string((long long)eb.get(0)) + "}");
            }
        }
    }
    // C08 rounding: compared as numbers (sign of a zero result is free), NaN -> NaN
    CV("C08", "ceil", 1, xs::ceil(va), ref::ceil(x), true, SN);
    CV("C08", "floor", 1, xs::floor(va), ref::floor(x), true, SN);
    CV("C08", "trunc", 1, xs::trunc(va), ref::trunc(x), true, SN);
    CV("C08", "round", 1, xs::round(va), ref::round(x), true, SN);
    CV("C08", "nearbyint", 1, xs::nearbyint(va), ref::nearbyint(x), true, SN);
    CV("C08", "rint", 1, xs::rint(va), ref::rint(x), true, SN);
    {
        const T lo = (T)std::numeric_limits<I>::min(), hi = (T)std::numeric_limits<I>::max(); // hi rounds up to 2^(bits-1)
        auto fits = [lo, hi](T n) { return n >= lo && n < hi; };
        auto EQI = [](I g, I e) { return g == e; };
        check_val<T, I>(VH_ST("C08", "nearbyint_as_int"), VH_ST("C13", "nearbyint_as_int"), 1, in, LAM3(xs::nearbyint_as_int(va)),
                        [](T x, T, T) { return (I)ref::nearbyint(x); }, [fits](T x, T, T) { return x == x && fits(ref::nearbyint(x)); }, EQI, cls_fp<T>, it);
        check_val<T, I>(VH_ST("C08", "to_int"), VH_ST("C13", "to_int"), 1, in, LAM3(xs::to_int(va)),
                        [](T x, T, T) { return (I)ref::trunc(x); }, [fits](T x, T, T) { return x == x && fits(ref::trunc(x)); }, EQI, cls_fp<T>, it);
    }
}

template <class T>
static void nary_ops(const Ops<T>& in, Rng& rng, long it)
{
    using B = xs::batch<T, ARCH>;
    using U = bits_t<T>;
    using I = xs::as_integer_t<T>;
    using BI = xs::batch<I, ARCH>;
    constexpr size_t N = B::size;
    auto SF = [](T g, T e) { return same_fp(g, e); };
    auto SB = [](T g, T e) { return same_bits(g, e); };
    CV("C02", "add", 2, va + vb, ref::add(x, y), true, SF);
    CV("C02", "sub", 2, va - vb, ref::sub(x, y), true, SF);
    CV("C02", "mul", 2, va * vb, ref::mul(x, y), true, SF);
    CV("C02", "div", 2, va / vb, ref::div(x, y), true, SF);
    // other API forms of the four operations: named functions, compound assignment, mixed batch/scalar operands
    CV("C02", "xs_add", 2, xs::add(va, vb), ref::add(x, y), true, SF);
    CV("C02", "xs_sub", 2, xs::sub(va, vb), ref::sub(x, y), true, SF);
    CV("C02", "xs_mul", 2, xs::mul(va, vb), ref::mul(x, y), true, SF);
    CV("C02", "xs_div", 2, xs::div(va, vb), ref::div(x, y), true, SF);
    CV("C02", "add_assign", 2, (va += vb), ref::add(x, y), true, SF);
    CV("C02", "sub_assign", 2, (va -= vb), ref::sub(x, y), true, SF);
    CV("C02", "mul_assign", 2, (va *= vb), ref::mul(x, y), true, SF);
    CV("C02", "div_assign", 2, (va /= vb), ref::div(x, y), true, SF);
    CV("C02", "xs_neg", 1, xs::neg(va), frombits<T>((U)(bits(x) ^ ((U)1 << (sizeof(T) * 8 - 1)))), true, SB);
    CV("C02", "xs_bitwise_and", 2, xs::bitwise_and(va, vb), frombits<T>((U)(bits(x) & bits(y))), true, SB);
    CV("C02", "xs_bitwise_or", 2, xs::bitwise_or(va, vb), frombits<T>((U)(bits(x) | bits(y))), true, SB);
    CV("C02", "xs_bitwise_xor", 2, xs::bitwise_xor(va, vb), frombits<T>((U)(bits(x) ^ bits(y))), true, SB);
    CV("C02", "xs_bitwise_not", 1, xs::bitwise_not(va), frombits<T>((U)~bits(x)), true, SB);
    {
        Ops<T> d = in;
        for (size_t i = 0; i < N; ++i)
        {
            d.b[i] = in.b[0];
            d.cb[i] = in.cb[0];
        }
        const Ops<T>& in = d;
        CV("C02", "add_scalar_rhs", 2, va + vb.get(0), ref::add(x, y), true, SF);
        CV("C02", "sub_scalar_lhs", 2, vb.get(0) - va, ref::sub(y, x), true, SF);
        CV("C02", "mul_scalar_lhs", 2, vb.get(0) * va, ref::mul(y, x), true, SF);
        CV("C02", "div_scalar_lhs", 2, vb.get(0) / va, ref::div(y, x), true, SF);
        CV("C02", "div_scalar_rhs", 2, va / vb.get(0), ref::div(x, y), true, SF);
    }
    CV("C02", "copysign", 2, xs::copysign(va, vb), frombits<T>((U)((bits(x) & ~((U)1 << (sizeof(T) * 8 - 1))) | (bits(y) & ((U)1 << (sizeof(T) * 8 - 1))))), true, SB);
    CV("C02", "bitwise_and", 2, va & vb, frombits<T>((U)(bits(x) & bits(y))), true, SB);
    CV("C02", "bitwise_or", 2, va | vb, frombits<T>((U)(bits(x) | bits(y))), true, SB);
    CV("C02", "bitwise_xor", 2, va ^ vb, frombits<T>((U)(bits(x) ^ bits(y))), true, SB);
    CV("C02", "bitwise_andnot", 2, xs::bitwise_andnot(va, vb), frombits<T>((U)(bits(x) & ~bits(y))), true, SB);
    // from == to returns to (std::nextafter): nextafter(+0, -0) is -0.  The zero pairs are counted as an operation of their own
    CV("C02", "nextafter", 2, xs::nextafter(va, vb), ref::nextafter(x, y), !(x == 0 && y == 0), SF);
    CV("C02", "nextafter_equal_zeros", 2, xs::nextafter(va, vb), ref::nextafter(x, y), x == 0 && y == 0, SF);
    // fma family: either the fused or the separately rounded result, bit-exact
    {
        struct Alt
        {
            const char* name;
            int sa, sc; // sign applied to a and to c
        };
        static const Alt alts[4] = { { "fma", 1, 1 }, { "fms", 1, -1 }, { "fnma", -1, 1 }, { "fnms", -1, -1 } };
        for (int w = 0; w < 4; ++w)
        {
            OpStat& st = w == 0 ? VH_ST("C02", "fma") : w == 1 ? VH_ST("C02", "fms") : w == 2 ? VH_ST("C02", "fnma") : VH_ST("C02", "fnms");
            OpStat& li = w == 0 ? VH_ST("C13", "fma") : w == 1 ? VH_ST("C13", "fms") : w == 2 ? VH_ST("C13", "fnma") : VH_ST("C13", "fnms");
            if (!st.on && !li.on)
                continue;
            alignas(64) T o[N], o1[N];
            mark_case(alts[w].name, tname<T>(), &in, 3 * sizeof(in.a));
            auto call = [w](B a, B b, B c) { return w == 0 ? xs::fma(a, b, c) : w == 1 ? xs::fms(a, b, c) : w == 2 ? xs::fnma(a, b, c) : xs::fnms(a, b, c); };
            call(B::load_aligned(in.a), B::load_aligned(in.b), B::load_aligned(in.c)).store_aligned(o);
            if (st.on)
                for (size_t i = 0; i < N; ++i)
                {
                    T x = alts[w].sa < 0 ? -in.a[i] : in.a[i], y = in.b[i], z = alts[w].sc < 0 ? -in.c[i] : in.c[i];
                    T e1 = ref::fma(x, y, z), e2 = ref::muladd(x, y, z);
                    st.evals++;
                    st.cell(cellidx(in, i, 3));
                    if (!same_fp(o[i], e1) && !same_fp(o[i], e2))
                        viol(st, cls_fp<T>(in.a[i], in.b[i], in.c[i]), "{" + wit3(in, i) + ",\"got\":\"" + hexv(o[i]) + "\",\"fused\":\"" + hexv(e1) + "\",\"unfused\":\"" + hexv(e2) + "\"}");
                }
            if (li.on)
            {
                size_t k = (size_t)it % N;
                call(B(in.a[k]), B(in.b[k]), B(in.c[k])).store_aligned(o1);
                li.evals++;
                li.cell(cellidx(in, k, 3));
                if (!same_fp(o1[0], o[k]))
                    viol(li, "unclassified", "{" + wit3(in, k) + ",\"in_batch\":\"" + hexv(o[k]) + "\",\"broadcast\":" + hexarr(o1, N) + "}");
            }
        }
    }
    // min/max, neither operand NaN: bitwise one of the operands and numerically the smaller/larger
    {
        for (int w = 0; w < 2; ++w)
        {
            OpStat& st = w ? VH_ST("C02", "max") : VH_ST("C02", "min");
            if (!st.on)
                continue;
            alignas(64) T o[N];
            mark_case(w ? "max" : "min", tname<T>(), &in, 2 * sizeof(in.a));
            B r = w ? xs::max(B::load_aligned(in.a), B::load_aligned(in.b)) : xs::min(B::load_aligned(in.a), B::load_aligned(in.b));
            r.store_aligned(o);
            for (size_t i = 0; i < N; ++i)
            {
                T x = in.a[i], y = in.b[i];
                if (x != x || y != y)
                    continue;
                T e = w ? (x > y ? x : y) : (x < y ? x : y);
                st.evals++;
                st.cell(cellidx(in, i, 2));
                if (!(o[i] == e) || !(same_bits(o[i], x) || same_bits(o[i], y)))
                    viol(st, cls_fp<T>(x, y, y), "{" + wit3(in, i) + ",\"got\":\"" + hexv(o[i]) + "\"}");
            }
        }
    }
    // ldexp for every exponent: half of the batches keep 2^e a normal number (the range the math kernels use), the others
    // draw e from just outside that range, from the range where only the product decides (|e| up to 2*emax + mantissa)
    // and from the whole integer type.  Reference: std::ldexp with the exponent clamped into int.
    {
        OpStat& st = VH_ST("C02", "ldexp");
        if (st.on)
        {
            alignas(64) I ex[N];
            alignas(64) T o[N];
            const int emin = std::numeric_limits<T>::min_exponent - 1, emax = std::numeric_limits<T>::max_exponent - 1;
            const int mode = (int)(it % 4);
            for (size_t i = 0; i < N; ++i)
            {
                uint64_t k = rng.next();
                int cls_unused;
                switch (mode)
                {
                case 0:
                case 1: ex[i] = (k & 3) == 0 ? (I)(emin + (int)((k >> 8) % (uint64_t)(emax - emin + 1))) : (I)((int)((k >> 8) % 81) - 40); break;
                case 2: // around the two ends of the normal range and out to where every finite operand saturates
                    switch ((k >> 4) & 3)
                    {
                    case 0: ex[i] = (I)(emax + 1 + (int)((k >> 8) % 8)); break;
                    case 1: ex[i] = (I)(emin - 1 - (int)((k >> 8) % 8)); break;
                    default: ex[i] = (I)((int)((k >> 8) % (uint64_t)(2 * (2 * emax + std::numeric_limits<T>::digits + 4))) - (2 * emax + std::numeric_limits<T>::digits + 4)); break;
                    }
                    break;
                default: ex[i] = hostile<I>(rng, cls_unused); break;
                }
            }
            mark_case("ldexp", tname<T>(), &in, sizeof(in.a));
            xs::ldexp(B::load_aligned(in.a), BI::load_aligned(ex)).store_aligned(o);
            for (size_t i = 0; i < N; ++i)
            {
                const long long ev = (long long)ex[i];
                const int ec = ev > 100000 ? 100000 : ev < -100000 ? -100000 : (int)ev;
                T e = ref::ldexp(in.a[i], ec);
                st.evals++;
                st.cell(cellidx(in, i, 1) ^ (unsigned)((ev < emin ? 1u : ev > emax ? 2u : 0u) << 13));
                if (!same_fp(o[i], e))
                {
                    // named classes of the open finding F31 (first match wins)
                    const bool a512 = std::is_base_of<xs::avx512f, ARCH>::value;
                    const char* cl = (!a512 && (ev < emin || ev > emax)) ? "scale_factor_not_a_normal_number"
                        : (a512 && sizeof(T) == 8 && ev != (long long)(int32_t)ev)                 ? "exponent_beyond_int32"
                                                                                                   : cls_fp<T>(in.a[i], in.a[i], in.a[i]);
                    viol(st, cl, "{" + wit3(in, i) + ",\"e\":" + std::to_string(ev) + ",\"got\":\"" + hexv(o[i]) + "\",\"exp\":\"" + hexv(e) + "\"}");
                }
            }
        }
    }
}

template <class T>
static void run_type(uint64_t seed)
{
    using B = xs::batch<T, ARCH>;
    constexpr size_t N = B::size;
    Rng rng(mix(seed, strhash(tname<T>())));
    Ops<T> in;
    long it = 0;
    long iters = budget(20000, 400000);
    for (long k = 0; k < iters; ++k, ++it)
    {
        in.fill_hostile(rng);
        if (k % 4 == 1) // related operands: b near a, c cancelling a*b
            for (size_t i = 0; i < N; ++i)
            {
                int d;
                in.b[i] = (rng.next() & 1) ? in.a[i] : frombits<T>((bits_t<T>)(bits(in.a[i]) + (bits_t<T>)(rng.below(5)) - 2));
                in.cb[i] = 29;
                (void)d;
            }
        unary_ops<T>(in, it);
        nary_ops<T>(in, rng, it);
    }
    // witness-lane sweep
    for (size_t k = 0; k < N; ++k)
        for (int rep = 0; rep < 48; ++rep)
        {
            for (size_t i = 0; i < N; ++i)
            {
                in.a[i] = (T)(1 + (int)rng.below(7));
                in.b[i] = (T)(1 + (int)rng.below(5));
                in.c[i] = (T)(int)rng.below(3);
                in.ca[i] = in.cb[i] = in.cc[i] = 28;
            }
            in.a[k] = hostile<T>(rng, in.ca[k]);
            in.b[k] = hostile<T>(rng, in.cb[k]);
            in.c[k] = hostile<T>(rng, in.cc[k]);
            unary_ops<T>(in, (long)k);
            nary_ops<T>(in, rng, (long)k);
        }
    // rounding lattice: k/2 and k +- 1ulp around 0, 2^22..2^24 / 2^51..2^53, 2^31, 2^63
    {
        const int mant = std::numeric_limits<T>::digits;
        const double centres[] = { 0, 1, 1e3, 4096, std::ldexp(1.0, mant - 2), std::ldexp(1.0, mant - 1), std::ldexp(1.0, mant), std::ldexp(1.0, 31), std::ldexp(1.0, 32), std::ldexp(1.0, 63), std::ldexp(1.0, 64), std::ldexp(1.0, mant - 3) };
        size_t fill = 0;
        for (double cdbl : centres)
            for (int h = -64; h <= 64; ++h)
                for (int ulp = -2; ulp <= 2; ++ulp)
                    for (int sgn = 0; sgn < 2; ++sgn)
                    {
                        T v = (T)cdbl + (T)h * (T)0.5;
                        for (int u = 0; u < (ulp < 0 ? -ulp : ulp); ++u)
                            v = ref::nextafter(v, ulp < 0 ? -std::numeric_limits<T>::infinity() : std::numeric_limits<T>::infinity());
                        in.a[fill] = sgn ? -v : v;
                        in.b[fill] = in.c[fill] = (T)1;
                        in.ca[fill] = 29;
                        in.cb[fill] = in.cc[fill] = 2;
                        if (++fill == N)
                        {
                            unary_ops<T>(in, it++);
                            fill = 0;
                        }
                    }
    }
    // float32: all 2^32 bit patterns through the unary ops (thorough) or a strided sample (quick)
    if (sizeof(T) == 4)
    {
        uint64_t stride = sweep_stride(509), start = seed % stride;
        size_t fill = 0;
        uint64_t cnt = 0;
        for (uint64_t p = start; p < (1ull << 32); p += stride)
        {
            uint32_t u = (uint32_t)p;
            memcpy(&in.a[fill], &u, 4);
            in.b[fill] = in.c[fill] = (T)1;
            in.ca[fill] = 24 + (int)(u >> 30);
            in.cb[fill] = in.cc[fill] = 2;
            ++cnt;
            if (++fill == N)
            {
                unary_ops<T>(in, it++);
                fill = 0;
            }
        }
        info("f32_unary_patterns", std::to_string(cnt));
    }
}

void vh::unit_main()
{
    if (!ref::rounding_mode_is_nearest())
    {
        emit("{\"t\":\"inconclusive\",\"why\":\"rounding mode\"}");
        return;
    }
    run_type<float>(ctx().seed);
    run_type<double>(ctx().seed);
}
VH_MAIN()
