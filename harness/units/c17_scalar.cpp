// C17 scalar overloads: every scalar overload is compared (a) with the model of C01/C02/C03/C06/C07/C08
// and (b) with lane 0 of the batch version on the architecture under test, so that a scalar remainder
// loop and the vector body agree.  Elementary functions: scalar vs batch within the C10/C11 bound.
#include "../common/vcheck.hpp"
#include "../common/ref.hpp"
using namespace vh;
typedef __int128 i128;
typedef unsigned __int128 u128;

template <class T>
static T wrapu(u128 v)
{
    using U = typename std::make_unsigned<T>::type;
    U u = (U)v;
    T t;
    memcpy(&t, &u, sizeof t);
    return t;
}

#define STAT(op) ([]() -> OpStat& { static OpStat& s = reg("C17", op, tname<T>()); return s; }())

// witness text is only built when it is needed (the exhaustive 16-bit sweep makes 10^11 calls)
template <class T>
struct Wit
{
    T a, b, c;
    int n;
    std::string extra;
    std::string str() const
    {
        return "\"a\":\"" + hexv(a) + "\",\"b\":\"" + hexv(b) + "\",\"c\":\"" + hexv(c) + "\"" + (n >= 0 ? ",\"n\":" + std::to_string(n) : std::string()) + extra;
    }
    Wit with(const std::string& e) const
    {
        Wit w = *this;
        w.extra += e;
        return w;
    }
};
template <class T>
static std::string operator+(const std::string& s, const Wit<T>& w) { return s + w.str(); }

// scalar result, model value, lane 0 of the batch form
template <class T, class R>
static void judge(OpStat& st, const char* cls, R scalar, R model, bool have_batch, R batch0, const Wit<T>& wit, unsigned cell, bool (*eq)(R, R))
{
    if (!st.on)
        return;
    st.evals++;
    st.cell(cell);
    // two independent observations: a listed finding about the model value (e.g. rotl/rotr on signed types, where scalar
    // and batch are wrong in the same way) must not hide a scalar overload that drifts away from the batch kernels
    const bool bad_model = !eq(scalar, model), bad_batch = have_batch && !eq(scalar, batch0);
    if (bad_model)
        viol(st, cls, "{" + wit.str() + ",\"scalar\":\"" + hexv(scalar) + "\",\"model\":\"" + hexv(model) + "\",\"against\":\"model\"}");
    if (bad_batch)
        viol(st, "scalar_differs_from_batch", "{" + wit.str() + ",\"scalar\":\"" + hexv(scalar) + "\",\"batch_lane0\":\"" + hexv(batch0) + "\",\"against\":\"batch\"}");
    if (!bad_model && !bad_batch && st.want_sample())
        st.samples.push_back("{" + wit.str() + ",\"scalar\":\"" + hexv(scalar) + "\"}");
}
template <class R>
static bool eq_exact(R a, R b) { return a == b; }
template <class R>
static bool eq_fp(R a, R b) { return same_fp(a, b); }
static bool eq_bool(bool a, bool b) { return a == b; }

template <class T>
static void ints_one(T a, T b, T c, int n, int ca, int cb)
{
    using U = typename std::make_unsigned<T>::type;
    using B = xs::batch<T, ARCH>;
    constexpr int BITS = sizeof(T) * 8;
    const i128 MIN = std::numeric_limits<T>::min(), MAX = std::numeric_limits<T>::max();
    i128 x = a, y = b, z = c;
    u128 ux = (u128)(U)a, uy = (u128)(U)b;
    U ua = (U)a, ub = (U)b;
    const Wit<T> wit { a, b, c, n, std::string() };
    unsigned cell = (unsigned)(ca << 4 | cb);
    B va(a), vb(b), vc(c);
    mark_case("scalar_int", tname<T>(), &a, sizeof a);
    const char* signedcls = std::is_signed<T>::value ? "signed_element_type" : "unclassified";
#define S(op, sc, model, batch) judge<T, T>(STAT(op), "unclassified", (T)(sc), (T)(model), true, (T)(batch).get(0), wit, cell, eq_exact<T>)
    S("add", xs::add(a, b), wrapu<T>(ux + uy), xs::add(va, vb));
    S("sub", xs::sub(a, b), wrapu<T>(ux - uy), xs::sub(va, vb));
    S("mul", xs::mul(a, b), wrapu<T>((u128)x * (u128)y), xs::mul(va, vb));
    S("neg", xs::neg(a), wrapu<T>((u128)0 - (u128)x), xs::neg(va));
    S("abs", xs::abs(a), wrapu<T>(x < 0 ? (u128)0 - (u128)x : (u128)x), xs::abs(va));
    S("min", xs::min(a, b), (T)(x < y ? x : y), xs::min(va, vb));
    S("max", xs::max(a, b), (T)(x > y ? x : y), xs::max(va, vb));
    S("incr", xs::incr(a), wrapu<T>((u128)x + 1), xs::incr(va));
    S("decr", xs::decr(a), wrapu<T>((u128)x - 1), xs::decr(va));
    S("incr_if", xs::incr_if(a, b > c), wrapu<T>((u128)x + (y > z)), xs::incr_if(va, vb > vc));
    S("decr_if", xs::decr_if(a, b > c), wrapu<T>((u128)x - (y > z)), xs::decr_if(va, vb > vc));
    S("sadd", xs::sadd(a, b), (T)((x + y) < MIN ? MIN : ((x + y) > MAX ? MAX : x + y)), xs::sadd(va, vb));
    S("ssub", xs::ssub(a, b), (T)((x - y) < MIN ? MIN : ((x - y) > MAX ? MAX : x - y)), xs::ssub(va, vb));
    S("avg", xs::avg(a, b), (T)(std::is_signed<T>::value ? (x + y) / 2 : (x + y) >> 1), xs::avg(va, vb));
    if (x + y >= 0)
        S("avgr", xs::avgr(a, b), (T)((x + y + 1) >> 1), xs::avgr(va, vb));
    S("fma", xs::fma(a, b, c), wrapu<T>((u128)x * (u128)y + (u128)z), xs::fma(va, vb, vc));
    S("fms", xs::fms(a, b, c), wrapu<T>((u128)x * (u128)y - (u128)z), xs::fms(va, vb, vc));
    S("fnma", xs::fnma(a, b, c), wrapu<T>((u128)z - (u128)x * (u128)y), xs::fnma(va, vb, vc));
    S("fnms", xs::fnms(a, b, c), wrapu<T>((u128)0 - (u128)x * (u128)y - (u128)z), xs::fnms(va, vb, vc));
    if (b != 0 && !(std::is_signed<T>::value && a == std::numeric_limits<T>::min() && b == (T)-1))
    {
        S("div", xs::div(a, b), (T)(x / y), xs::div(va, vb));
        S("mod", xs::mod(a, b), (T)(x % y), xs::mod(va, vb));
    }
    S("bitwise_and", xs::bitwise_and(a, b), wrapu<T>((U)(ua & ub)), xs::bitwise_and(va, vb));
    S("bitwise_or", xs::bitwise_or(a, b), wrapu<T>((U)(ua | ub)), xs::bitwise_or(va, vb));
    S("bitwise_xor", xs::bitwise_xor(a, b), wrapu<T>((U)(ua ^ ub)), xs::bitwise_xor(va, vb));
    S("bitwise_not", xs::bitwise_not(a), wrapu<T>((U)~ua), xs::bitwise_not(va));
    S("bitwise_andnot", xs::bitwise_andnot(a, b), wrapu<T>((U)(ua & (U)~ub)), xs::bitwise_andnot(va, vb));
    S("bitwise_lshift", xs::bitwise_lshift(a, n), wrapu<T>((U)(ua << n)), xs::bitwise_lshift(va, n));
    S("bitwise_rshift", xs::bitwise_rshift(a, n), (T)(std::is_signed<T>::value ? (T)(x >> n) : (T)(ua >> n)), xs::bitwise_rshift(va, n));
    // rotations (every count including 0); signed types are the open finding F2
    {
        judge<T, T>(STAT("rotl"), signedcls, (T)xs::rotl(a, n), wrapu<T>((U)((U)(ua << n) | (n ? (U)(ua >> (BITS - n)) : (U)0))), true, (T)xs::rotl(va, n).get(0), wit, cell, eq_exact<T>);
        judge<T, T>(STAT("rotr"), signedcls, (T)xs::rotr(a, n), wrapu<T>((U)((U)(ua >> n) | (n ? (U)(ua << (BITS - n)) : (U)0))), true, (T)xs::rotr(va, n).get(0), wit, cell, eq_exact<T>);
    }
#undef S
#define SB(op, sc, model, batch) judge<T, bool>(STAT(op), "unclassified", (bool)(sc), (bool)(model), true, (bool)(batch).get(0), wit, cell, eq_bool)
    SB("eq", xs::eq(a, b), x == y, xs::eq(va, vb));
    SB("neq", xs::neq(a, b), x != y, xs::neq(va, vb));
    SB("lt", xs::lt(a, b), x < y, xs::lt(va, vb));
    SB("le", xs::le(a, b), x <= y, xs::le(va, vb));
    SB("gt", xs::gt(a, b), x > y, xs::gt(va, vb));
    SB("ge", xs::ge(a, b), x >= y, xs::ge(va, vb));
#undef SB
    judge<T, T>(STAT("select"), "unclassified", xs::select(b > c, a, b), (T)((y > z) ? a : b), true, xs::select(vb > vc, va, vb).get(0), wit, cell, eq_exact<T>);
    if (b <= c)
        judge<T, T>(STAT("clip"), "unclassified", xs::clip(a, b, c), (T)(x < y ? y : (x > z ? z : x)), true, xs::clip(va, vb, vc).get(0), wit, cell, eq_exact<T>);
    {
        // pow with an integer exponent: repeated multiplication modulo 2^bits
        int e = n % 6;
        u128 p = 1;
        for (int i = 0; i < e; ++i)
            p *= (u128)x;
        judge<T, T>(STAT("pow_int_exponent"), "unclassified", (T)xs::pow(a, e), wrapu<T>(p), false, (T)0, wit.with(",\"e\":" + std::to_string(e)), cell, eq_exact<T>);
    }
    {
        using U2 = typename std::conditional<std::is_signed<T>::value, U, typename std::make_signed<T>::type>::type;
        U2 bc = xs::bitwise_cast<U2>(a);
        OpStat& st = STAT("bitwise_cast");
        if (st.on)
        {
            st.evals++;
            st.cell(cell);
            if (memcmp(&bc, &a, sizeof a))
                viol(st, "unclassified", "{" + wit + "}");
        }
    }
}

template <class T>
static void ints(uint64_t seed)
{
    Rng rng(mix(seed, 1700 + strhash(tname<T>())));
    constexpr int BITS = sizeof(T) * 8;
    int c1, c2, c3;
    if (sizeof(T) == 1)
        for (int a = 0; a < 256; ++a)
            for (int b = 0; b < 256; ++b)
                ints_one<T>(wrapu<T>((u128)a), wrapu<T>((u128)b), hostile<T>(rng, c3), (a + b) % BITS, 14, 14);
    if (sizeof(T) == 2)
    {
        uint64_t stride = sweep_stride(4099) * (ctx().tier ? 17 : 1), start = seed % stride; // thorough: every 17th pair (the scalar forms cost ~1.6 us per pair and ~50 ops)
        for (uint64_t p = start; p < (1ull << 32); p += stride)
            ints_one<T>(wrapu<T>((u128)(p >> 16)), wrapu<T>((u128)(p & 0xffff)), hostile<T>(rng, c3), (int)(p % BITS), 14, 14);
    }
    long iters = budget(60000, 2000000);
    for (long it = 0; it < iters; ++it)
    {
        T a = hostile<T>(rng, c1), b = hostile<T>(rng, c2), c = hostile<T>(rng, c3);
        ints_one<T>(a, b, c, (int)(rng.next() % BITS), c1, c2);
    }
}

template <class T>
static void flts(uint64_t seed)
{
    using B = xs::batch<T, ARCH>;
    using I = xs::as_integer_t<T>;
    Rng rng(mix(seed, 1717 + sizeof(T)));
    long iters = budget(100000, 3000000);
    for (long it = 0; it < iters; ++it)
    {
        int c1, c2, c3;
        T a = hostile<T>(rng, c1), b = hostile<T>(rng, c2), c = hostile<T>(rng, c3);
        // the property is about non-NaN scalars
        if (a != a)
            a = (T)1.5;
        if (b != b)
            b = (T)-2.25;
        if (c != c)
            c = (T)0.75;
        if (it % 5 == 0)
            c = -ref::mul(a, b); // exact cancellation: sign of a zero result of the fma family
        const Wit<T> wit { a, b, c, -1, std::string() };
        unsigned cell = (unsigned)(c1 << 5 | c2);
        B va(a), vb(b), vc(c);
        mark_case("scalar_fp", tname<T>(), &a, sizeof a);
#define SF(op, sc, model, batch) judge<T, T>(STAT(op), "unclassified", (T)(sc), (T)(model), true, (T)(batch).get(0), wit, cell, eq_fp<T>)
        SF("add", xs::add(a, b), ref::add(a, b), xs::add(va, vb));
        SF("sub", xs::sub(a, b), ref::sub(a, b), xs::sub(va, vb));
        SF("mul", xs::mul(a, b), ref::mul(a, b), xs::mul(va, vb));
        SF("div", xs::div(a, b), ref::div(a, b), xs::div(va, vb));
        SF("neg", xs::neg(a), frombits<T>((bits_t<T>)(bits(a) ^ ((bits_t<T>)1 << (sizeof(T) * 8 - 1)))), xs::neg(va));
        SF("abs", xs::abs(a), frombits<T>((bits_t<T>)(bits(a) & ~((bits_t<T>)1 << (sizeof(T) * 8 - 1)))), xs::abs(va));
#undef SF
        {
            // min/max: numerically the smaller/larger operand (either zero for +-0); scalar and batch must agree as numbers
            OpStat& st = STAT("min_max");
            if (st.on)
            {
                st.evals += 2;
                st.cell(cell);
                T g1 = xs::min(a, b), g2 = xs::max(a, b), e1 = a < b ? a : b, e2 = a > b ? a : b;
                if (!(g1 == e1) || !(g2 == e2) || !(xs::min(va, vb).get(0) == g1) || !(xs::max(va, vb).get(0) == g2))
                    viol(st, "unclassified", "{" + wit + ",\"min\":\"" + hexv(g1) + "\",\"max\":\"" + hexv(g2) + "\"}");
            }
        }
        {
            // fma family: scalar must be the fused or the unfused result; and equal to the batch lane up to that latitude
            struct Alt
            {
                const char* name;
                int sa, sc;
            };
            static const Alt alts[4] = { { "fma", 1, 1 }, { "fms", 1, -1 }, { "fnma", -1, 1 }, { "fnms", -1, -1 } };
            for (int w = 0; w < 4; ++w)
            {
                OpStat& st = w == 0 ? STAT("fma") : w == 1 ? STAT("fms") : w == 2 ? STAT("fnma") : STAT("fnms");
                if (!st.on)
                    continue;
                T g = w == 0 ? xs::fma(a, b, c) : w == 1 ? xs::fms(a, b, c) : w == 2 ? xs::fnma(a, b, c) : xs::fnms(a, b, c);
                T gb = (w == 0 ? xs::fma(va, vb, vc) : w == 1 ? xs::fms(va, vb, vc) : w == 2 ? xs::fnma(va, vb, vc) : xs::fnms(va, vb, vc)).get(0);
                T x = alts[w].sa < 0 ? -a : a, z = alts[w].sc < 0 ? -c : c;
                T e1 = ref::fma(x, b, z), e2 = ref::muladd(x, b, z);
                st.evals++;
                st.cell(cell);
                if (!same_fp(g, e1) && !same_fp(g, e2))
                    viol(st, "unclassified", "{" + wit + ",\"scalar\":\"" + hexv(g) + "\",\"fused\":\"" + hexv(e1) + "\",\"unfused\":\"" + hexv(e2) + "\",\"against\":\"model\"}");
                else if (!same_fp(gb, e1) && !same_fp(gb, e2))
                    viol(st, "unclassified", "{" + wit + ",\"batch_lane0\":\"" + hexv(gb) + "\",\"fused\":\"" + hexv(e1) + "\",\"unfused\":\"" + hexv(e2) + "\",\"against\":\"batch\"}");
            }
        }
#define SB(op, sc, model, batch) judge<T, bool>(STAT(op), "unclassified", (bool)(sc), (bool)(model), true, (bool)(batch).get(0), wit, cell, eq_bool)
        SB("is_flint", xs::is_flint(a), ref::is_integer(a), xs::is_flint(va));
        SB("is_even", xs::is_even(a), ref::is_even_integer(a), xs::is_even(va));
        SB("is_odd", xs::is_odd(a), ref::is_odd_integer(a), xs::is_odd(va));
        SB("eq", xs::eq(a, b), a == b, xs::eq(va, vb));
        SB("neq", xs::neq(a, b), a != b, xs::neq(va, vb));
        SB("lt", xs::lt(a, b), a < b, xs::lt(va, vb));
        SB("le", xs::le(a, b), a <= b, xs::le(va, vb));
        SB("gt", xs::gt(a, b), a > b, xs::gt(va, vb));
        SB("ge", xs::ge(a, b), a >= b, xs::ge(va, vb));
#undef SB
        {
            T n = ref::nearbyint(a);
            if (n >= (T)std::numeric_limits<I>::min() && n < (T)std::numeric_limits<I>::max())
                judge<T, I>(STAT("nearbyint_as_int"), "unclassified", (I)xs::nearbyint_as_int(a), (I)n, true, (I)xs::nearbyint_as_int(va).get(0), wit, cell, eq_exact<I>);
        }
        {
            OpStat& st = STAT("bitwise_cast");
            if (st.on)
            {
                I bi = xs::bitwise_cast<I>(a);
                st.evals++;
                st.cell(cell);
                if (memcmp(&bi, &a, sizeof a))
                    viol(st, "unclassified", "{" + wit + "}");
            }
        }
        judge<T, T>(STAT("select"), "unclassified", xs::select(b > c, a, b), (b > c) ? a : b, true, xs::select(vb > vc, va, vb).get(0), wit, cell, eq_fp<T>);
        if (b <= c)
            judge<T, T>(STAT("clip"), "unclassified", xs::clip(a, b, c), a < b ? b : (a > c ? c : a), true, xs::clip(va, vb, vc).get(0), wit, cell, [](T p, T q) { return p == q; });
        {
            // pow with an integer exponent: exact power in long double, 8 eps, only when that power is a normal number
            int e = (int)(rng.next() % 9) - 4;
            long double p = 1;
            for (int i = 0; i < std::abs(e); ++i)
                p *= (long double)a;
            if (e < 0)
                p = 1 / p;
            OpStat& st = STAT("pow_int_exponent");
            if (st.on && std::isfinite((double)p) && std::fabs(p) >= (long double)std::numeric_limits<T>::min() && std::fabs(p) <= (long double)std::numeric_limits<T>::max())
            {
                T g = xs::pow(a, e);
                st.evals++;
                st.cell(cell);
                if (!(std::fabs((long double)g - p) <= 8 * (long double)std::numeric_limits<T>::epsilon() * std::fabs(p)))
                    viol(st, "unclassified", "{" + wit + ",\"e\":" + std::to_string(e) + ",\"scalar\":\"" + hexv(g) + "\",\"exact\":" + std::to_string((double)p) + "}");
            }
        }
        // elementary functions: scalar overload (libm) and batch lane agree within the C10/C11 bound (here: a common, generous 8 ulp envelope
        // relative to the scalar value for moderate arguments; the per-function bounds are enforced by C10/C11 themselves)
        if (it % 4 == 0)
        {
            T m = (T)(((double)(rng.next() % 2000001) - 1000000.0) / 65536.0); // moderate argument in [-15.3, 15.3]
            B vm(m);
            auto near = [&](const char* op, T s, T v, double ulps)
            {
                OpStat& st = reg("C17", op, tname<T>());
                if (!st.on || s != s || std::isinf(s))
                    return;
                st.evals++;
                st.cell((unsigned)((int)m + 16));
                double scale = std::max(std::fabs((double)s), (double)std::numeric_limits<T>::min() * 4);
                if (!(std::fabs((double)v - (double)s) <= ulps * (double)std::numeric_limits<T>::epsilon() * scale))
                    viol(st, "unclassified", "{\"x\":\"" + hexv(m) + "\",\"scalar\":\"" + hexv(s) + "\",\"batch_lane0\":\"" + hexv(v) + "\"}");
            };
            near("fn_exp", xs::exp(m), xs::exp(vm).get(0), 8);
            near("fn_sin", xs::sin(m), xs::sin(vm).get(0), 8);
            near("fn_cos", xs::cos(m), xs::cos(vm).get(0), 8);
            near("fn_tanh", xs::tanh(m), xs::tanh(vm).get(0), 8);
            near("fn_atan", xs::atan(m), xs::atan(vm).get(0), 8);
            near("fn_cbrt", xs::cbrt(m), xs::cbrt(vm).get(0), 8);
            near("fn_erf", xs::erf(m), xs::erf(vm).get(0), sizeof(T) == 8 ? 128 : 8);
            if (m > 0)
            {
                near("fn_log", xs::log(m), xs::log(vm).get(0), 8);
                near("fn_sqrt", xs::sqrt(m), xs::sqrt(vm).get(0), 1);
            }
            // the remaining scalar forms (std:: imports and the library's own exp10 / sincos); tolerance = the function's frozen
            // C10/C11 bound + 1 ulp for the scalar side, in units of eps*|scalar| (>= 1 ulp), results outside the normal range skipped by near();
            // + 4 ulp because glibc documents up to 4 ulp for some of its own functions (cbrt), so "scalar side within 1 ulp" would be a false alarm
            auto near2 = [&](const char* op, T sv, T bv, double ulps) { near(op, sv, bv, ulps + 4); };
            near2("fn_exp2", xs::exp2(m), xs::exp2(vm).get(0), 4);
            near2("fn_exp10", xs::exp10(m), xs::exp10(vm).get(0), 4.5);
            near2("fn_expm1", xs::expm1(m), xs::expm1(vm).get(0), 4.5);
            near2("fn_tan", xs::tan(m), xs::tan(vm).get(0), 6.5);
            near2("fn_sinh", xs::sinh(m), xs::sinh(vm).get(0), 5.5);
            near2("fn_cosh", xs::cosh(m), xs::cosh(vm).get(0), 5.5);
            near2("fn_asinh", xs::asinh(m), xs::asinh(vm).get(0), 6.5);
            {
                auto sc = xs::sincos(m);
                auto vc2 = xs::sincos(vm);
                near2("fn_sincos_sin", sc.first, vc2.first.get(0), 5);
                near2("fn_sincos_cos", sc.second, vc2.second.get(0), 5);
            }
            if (m > 0)
            {
                near2("fn_log2", xs::log2(m), xs::log2(vm).get(0), 4.5);
                near2("fn_log10", xs::log10(m), xs::log10(vm).get(0), 3.5);
            }
            if (m > -1)
                near2("fn_log1p", xs::log1p(m), xs::log1p(vm).get(0), 3.5);
            if (m >= 1)
                near2("fn_acosh", xs::acosh(m), xs::acosh(vm).get(0), 5);
            {
                T u = m / (T)15.5; // in (-1, 1)
                B vu(u);
                near2("fn_asin", xs::asin(u), xs::asin(vu).get(0), 5);
                near2("fn_acos", xs::acos(u), xs::acos(vu).get(0), 4);
                near2("fn_atanh", xs::atanh(u), xs::atanh(vu).get(0), 4.5);
            }
            {
                T y = (T)(((double)(rng.next() % 2000001) - 1000000.0) / 65536.0);
                B vy(y);
                if (m != 0 || y != 0)
                    near2("fn_atan2", xs::atan2(m, y), xs::atan2(vm, vy).get(0), 5.5);
                near2("fn_hypot", xs::hypot(m, y), xs::hypot(vm, vy).get(0), 4);
                if (m > 0)
                { // pow bound 4*(1+|y ln x|) ulp
                    double budget_ulps = 4.0 * (1.0 + std::fabs((double)y * std::log((double)m))) + 2;
                    near2("fn_pow", xs::pow(m, y), xs::pow(vm, vy).get(0), budget_ulps);
                }
            }
        }
        // the same over the whole exponent range (log-uniform magnitudes, both signs) for the functions whose results stay representable
        if (it % 4 == 1)
        {
            using U = bits_t<T>;
            T m = frombits<T>((U)rng.next());
            if (m != m || std::isinf(m) || std::fabs(m) < std::numeric_limits<T>::min())
                m = (T)0.625;
            B vm(m);
            auto nearw = [&](const char* op, T s, T v, double ulps)
            {
                OpStat& st = reg("C17", op, tname<T>());
                if (!st.on || s != s || std::isinf(s) || std::fabs(s) < std::numeric_limits<T>::min() * 4 || std::fabs(s) > std::numeric_limits<T>::max() / 4)
                    return;
                st.evals++;
                int ex;
                std::frexp((double)m, &ex);
                st.cell((unsigned)(((ex + 1100) & 0xfff) * 2 + (m < 0)));
                if (!(std::fabs((double)v - (double)s) <= (ulps + 4) * (double)std::numeric_limits<T>::epsilon() * std::fabs((double)s))) // + 4: glibc's own documented error (cbrt)
                    viol(st, "unclassified", "{\"x\":\"" + hexv(m) + "\",\"scalar\":\"" + hexv(s) + "\",\"batch_lane0\":\"" + hexv(v) + "\",\"range\":\"wide\"}");
            };
            nearw("fn_atan", xs::atan(m), xs::atan(vm).get(0), 4);
            nearw("fn_cbrt", xs::cbrt(m), xs::cbrt(vm).get(0), 2);
            nearw("fn_tanh", xs::tanh(m), xs::tanh(vm).get(0), 3);
            nearw("fn_asinh", xs::asinh(m), xs::asinh(vm).get(0), 5.5);
            nearw("fn_expm1", xs::expm1(m), xs::expm1(vm).get(0), 3.5);
            nearw("fn_exp", xs::exp(m), xs::exp(vm).get(0), 3);
            nearw("fn_exp2", xs::exp2(m), xs::exp2(vm).get(0), 3);
            nearw("fn_exp10", xs::exp10(m), xs::exp10(vm).get(0), 3.5);
            nearw("fn_sinh", xs::sinh(m), xs::sinh(vm).get(0), 4.5);
            nearw("fn_cosh", xs::cosh(m), xs::cosh(vm).get(0), 4.5);
            nearw("fn_erf", xs::erf(m), xs::erf(vm).get(0), sizeof(T) == 8 ? 97 : 4.5);
            if (m > 0)
            {
                nearw("fn_log", xs::log(m), xs::log(vm).get(0), 2.5);
                nearw("fn_log2", xs::log2(m), xs::log2(vm).get(0), 3.5);
                nearw("fn_log10", xs::log10(m), xs::log10(vm).get(0), 2.5);
                nearw("fn_sqrt", xs::sqrt(m), xs::sqrt(vm).get(0), 1);
                nearw("fn_log1p", xs::log1p(m), xs::log1p(vm).get(0), 2.5);
                if (m >= 1)
                    nearw("fn_acosh", xs::acosh(m), xs::acosh(vm).get(0), 4);
            }
            if (sizeof(T) == 4 || std::fabs(m) >= 64)
            { // float: every magnitude; double: the accurate (Payne-Hanek) range only, the medium range has the open finding F29 (C11)
                nearw("fn_sin", xs::sin(m), xs::sin(vm).get(0), 4);
                nearw("fn_cos", xs::cos(m), xs::cos(vm).get(0), 4);
                nearw("fn_tan", xs::tan(m), xs::tan(vm).get(0), 5.5);
            }
        }
    }
}

// ---------------------------------------------------------------- pow(x, n) over the whole range of every exponent type
// Exponents are drawn over all magnitudes of the integer type E (one-bit, all-ones-below, random, MIN/MAX).  Oracles that
// are exact for ANY exponent:
//   integer base: modular square-and-multiply in 128-bit arithmetic (n >= 0);
//   floating base +-2^k (k in -2..2) and +-1: the result is +-2^(k*n) exactly when that is a normal number, and must
//   saturate on the right side (inf / >= MAX/16 with the right sign, or magnitude <= 16*MIN) when it is not;
//   floating base 1 +- 2^-j with |n| <= 2^20: exp(n*log1p(d)) in long double within (|n| + 8) eps (the inherent error
//   of square-and-multiply).
// In every case the batch lane must equal the scalar result bit for bit (same multiplication sequence).
template <class E>
static E wide_exponent(Rng& r, int& cls)
{
    using UE = typename std::make_unsigned<E>::type;
    const int B = sizeof(E) * 8;
    uint64_t k = r.next();
    int sel = (int)(k % 8);
    int bit = (int)((k >> 8) % B);
    UE u;
    switch (sel)
    {
    case 0: u = (UE)((UE)1 << bit); break;
    case 1: u = (UE)(((UE)1 << bit) | (UE)(r.next() & (((UE)1 << bit) - 1))); break;
    case 2: u = (UE)(((UE)1 << bit) + 1); break;
    case 3: u = (UE)(((UE)1 << bit) - 1); break;
    case 4: u = (UE)(r.next() % 70); break;
    case 5: u = (UE)std::numeric_limits<E>::max(); break;
    case 6: u = (UE)std::numeric_limits<E>::min(); break;
    default: u = (UE)r.next(); break;
    }
    E e;
    memcpy(&e, &u, sizeof e);
    if (std::is_signed<E>::value && (r.next() & 1) && e != std::numeric_limits<E>::min())
        e = (E)(0 - e);
    cls = sel * 64 + bit;
    return e;
}
template <class T, class E>
static void pow_wide_int(uint64_t seed)
{
    using B = xs::batch<T, ARCH>;
    static OpStat& st = reg("C17", (std::string("pow_") + tname<E>() + "_exponent").c_str(), tname<T>());
    if (!st.on)
        return;
    Rng rng(mix(seed, 1717 + strhash(tname<T>()) * 31 + strhash(tname<E>())));
    long iters = budget(4000, 200000);
    for (long it = 0; it < iters; ++it)
    {
        int ca, ce;
        T a = hostile<T>(rng, ca);
        E e = wide_exponent<E>(rng, ce);
        if (e < 0)
            continue; // integer base, negative exponent: 1 / r, not claimed
        u128 base = (u128)(typename std::make_unsigned<T>::type)a, p = 1;
        typename std::make_unsigned<E>::type n = (typename std::make_unsigned<E>::type)e;
        while (n)
        {
            if (n & 1)
                p *= base;
            base *= base;
            n >>= 1;
        }
        T want = wrapu<T>(p);
        mark_case("pow_wide", tname<T>(), &a, sizeof a);
        T got = (T)xs::pow(a, e);
        T lane = (T)xs::pow(B(a), e).get(0);
        st.evals++;
        st.cell((unsigned)(ce << 4 | (ca & 15)));
        if (got != want || lane != got)
            viol(st, "unclassified", "{\"x\":\"" + hexv(a) + "\",\"exponent\":" + std::to_string((long long)e) + ",\"exponent_type\":\"" + tname<E>() + "\",\"scalar\":\"" + hexv(got) + "\",\"batch_lane0\":\"" + hexv(lane) + "\",\"modular_power\":\"" + hexv(want) + "\"}");
    }
}
template <class T, class E>
static void pow_wide_fp(uint64_t seed)
{
    using B = xs::batch<T, ARCH>;
    using L = std::numeric_limits<T>;
    static OpStat& st = reg("C17", (std::string("pow_") + tname<E>() + "_exponent").c_str(), tname<T>());
    if (!st.on)
        return;
    Rng rng(mix(seed, 1719 + sizeof(T) * 31 + strhash(tname<E>())));
    long iters = budget(4000, 200000);
    for (long it = 0; it < iters; ++it)
    {
        int ce;
        E e = wide_exponent<E>(rng, ce);
        const long double n = (long double)e;
        int mode = (int)(rng.next() % 3);
        T a;
        long double exact = 0;
        bool have_exact = false;   // exact result known and a normal number
        int sat = 0;               // +1 / -1: must overflow with that sign; 2: must underflow towards zero
        long double tol = 0;
        if (mode < 2)
        {
            int k = (int)(rng.next() % 5) - 2; // base +-2^k
            bool neg = rng.next() & 1;
            a = (T)std::ldexp(neg ? -1.0 : 1.0, k);
            long double ex2 = (long double)k * n; // exponent of two of the magnitude
            bool odd = (((typename std::make_unsigned<E>::type)e) & 1) != 0;
            int sign = (neg && odd) ? -1 : 1;
            if (ex2 >= L::min_exponent - 1 && ex2 <= L::max_exponent - 1)
            {
                have_exact = true;
                exact = sign * ldexpl(1.0L, (int)ex2);
            }
            else
                sat = ex2 > 0 ? sign : 2;
        }
        else
        {
            int j = 3 + (int)(rng.next() % (L::digits - 4));
            long double d = ldexpl((rng.next() & 1) ? 1.0L : -1.0L, -j);
            a = (T)(1.0L + d);
            if (fabsl(n) > 1048576.0L)
                continue;
            exact = expl(n * log1pl((long double)a - 1.0L));
            if (!(fabsl(exact) >= (long double)L::min() * 4 && fabsl(exact) <= (long double)L::max() / 4))
                continue;
            have_exact = true;
            tol = (fabsl(n) + 8) * (long double)L::epsilon();
        }
        mark_case("pow_wide", tname<T>(), &a, sizeof a);
        T got = xs::pow(a, e);
        T lane = xs::pow(B(a), e).get(0);
        st.evals++;
        st.cell((unsigned)(ce << 2 | mode));
        bool ok = same_fp(got, lane);
        if (have_exact)
            ok = ok && fabsl((long double)got - exact) <= tol * fabsl(exact);
        else if (sat == 2)
            ok = ok && std::fabs(got) <= 16 * L::min();
        else
            ok = ok && (sat > 0 ? got >= L::max() / 16 : got <= -L::max() / 16);
        if (!ok)
            viol(st, "unclassified", "{\"x\":\"" + hexv(a) + "\",\"exponent\":" + std::to_string((long long)e) + ",\"exponent_type\":\"" + tname<E>() + "\",\"scalar\":\"" + hexv(got) + "\",\"batch_lane0\":\"" + hexv(lane) + "\",\"expected\":" + (have_exact ? "\"" + hexv((T)exact) + "\"" : sat == 2 ? "\"underflow towards 0\"" : sat > 0 ? "\"+overflow\"" : "\"-overflow\"") + "}");
    }
}
template <class E>
static void pow_wide_all(uint64_t s)
{
    pow_wide_int<int8_t, E>(s);
    pow_wide_int<uint16_t, E>(s);
    pow_wide_int<int32_t, E>(s);
    pow_wide_int<uint32_t, E>(s);
    pow_wide_int<int64_t, E>(s);
    pow_wide_int<uint64_t, E>(s);
    pow_wide_fp<float, E>(s);
    pow_wide_fp<double, E>(s);
}

void vh::unit_main()
{
    uint64_t s = ctx().seed;
    pow_wide_all<int8_t>(s);
    pow_wide_all<uint8_t>(s);
    pow_wide_all<int16_t>(s);
    pow_wide_all<uint16_t>(s);
    pow_wide_all<int32_t>(s);
    pow_wide_all<uint32_t>(s);
    pow_wide_all<int64_t>(s);
    pow_wide_all<uint64_t>(s);
    ints<int8_t>(s);
    ints<uint8_t>(s);
    ints<int16_t>(s);
    ints<uint16_t>(s);
    ints<int32_t>(s);
    ints<uint32_t>(s);
    ints<int64_t>(s);
    ints<uint64_t>(s);
    flts<float>(s);
    flts<double>(s);
}
VH_MAIN()
