// C03 comparisons, batch_bool algebra, mask()/from_mask, all/any/none/count, select,
// bool round trips.  Every batch_bool result is read back three ways (store, mask(), get(i)).
#include "../common/vcheck.hpp"
using namespace vh;

template <class T>
struct Other;
#define OTHER(A, B2)        \
    template <>             \
    struct Other<A>         \
    {                       \
        using type = B2;    \
    };
OTHER(int8_t, uint8_t)
OTHER(uint8_t, int8_t)
OTHER(int16_t, uint16_t)
OTHER(uint16_t, int16_t)
OTHER(int32_t, float)
OTHER(uint32_t, float)
OTHER(int64_t, double)
OTHER(uint64_t, double)
OTHER(float, int32_t)
OTHER(double, int64_t)

template <class T>
static const char* cls2(T a, T b)
{
    if (a != a || b != b)
        return "nan_operand";
    if (a == b)
        return "equal_operands";
    return "unclassified";
}

// read a batch_bool three ways and compare each with the model e[]
template <class T>
static void expect_bool(OpStat& st, const xs::batch_bool<T, ARCH>& r, const bool* e, const char* cls, const std::string& wit, unsigned cellbase)
{
    using BB = xs::batch_bool<T, ARCH>;
    constexpr size_t N = BB::size;
    unsigned char o[N + 8]; // raw bytes: a stored bool must be exactly 0 or 1, and nothing past N may be written
    memset(o, 0x5a, sizeof o);
    r.store_unaligned(reinterpret_cast<bool*>(o));
    uint64_t mk = r.mask();
    for (size_t i = 0; i < N; ++i)
    {
        st.evals++;
        st.cell(cellbase + (unsigned)i * 2 + (e[i] ? 1 : 0));
        unsigned char raw = o[i];
        bool g1 = raw != 0, g2 = (mk >> i) & 1, g3 = r.get(i);
        if (raw > 1 || g1 != e[i] || g2 != e[i] || g3 != e[i])
            viol(st, cls, "{" + wit + ",\"lane\":" + std::to_string(i) + ",\"store\":" + std::to_string((int)raw) + ",\"mask_bit\":" + std::to_string((int)g2) + ",\"get\":" + std::to_string((int)g3) + ",\"exp\":" + std::to_string((int)e[i]) + "}");
    }
    if (N < 64 && (mk >> N))
        viol(st, "mask_high_bits", "{" + wit + ",\"mask\":\"" + hexv(mk) + "\"}");
    for (size_t i = N; i < N + 8; ++i)
        if (o[i] != 0x5a)
            viol(st, "store_overrun", "{" + wit + "}");
}

template <class T>
static void compare_ops(const Ops<T>& in)
{
    using B = xs::batch<T, ARCH>;
    using BB = xs::batch_bool<T, ARCH>;
    constexpr size_t N = B::size;
    B va = B::load_aligned(in.a), vb = B::load_aligned(in.b);
    bool e[N];
    // a case-class per batch is not meaningful: classify per first mismatching lane inside expect_bool via cls of lane 0..;
    // simpler: per-op class computed from the whole batch (any NaN lane -> nan_operand)
    bool anynan = false;
    for (size_t i = 0; i < N; ++i)
        if (in.a[i] != in.a[i] || in.b[i] != in.b[i])
            anynan = true;
    const char* cls = anynan ? "batch_has_nan" : "unclassified";
    std::string wit = "\"a\":" + hexarr(in.a, N) + ",\"b\":" + hexarr(in.b, N);
#define CMP(name, expr, refexpr)                                               \
    {                                                                          \
        OpStat& st = VH_ST("C03", name);                                       \
        if (st.on)                                                             \
        {                                                                      \
            mark_case(name, tname<T>(), &in, 2 * sizeof(in.a));                \
            for (size_t i = 0; i < N; ++i)                                     \
            {                                                                  \
                T x = in.a[i], y = in.b[i];                                    \
                e[i] = (refexpr);                                              \
            }                                                                  \
            BB r = (expr);                                                     \
            expect_bool<T>(st, r, e, cls, wit, (unsigned)(in.ca[0] * 32 + in.cb[0]) * 256); \
        }                                                                      \
        OpStat& li = VH_ST("C13", name);                                       \
        if (li.on)                                                             \
        { /* lane independence: lane k among these companions vs the same operands broadcast */ \
            size_t k = (size_t)(in.ca[0] + in.cb[0]) % N;                      \
            BB r = (expr);                                                     \
            B sa = va, sb = vb;                                                \
            {                                                                  \
                B va(in.a[k]), vb(in.b[k]);                                    \
                BB r1 = (expr);                                                \
                li.evals++;                                                    \
                li.cell((unsigned)(k * 1024 + in.ca[k] * 32 + in.cb[k]));     \
                bool uniform = true;                                           \
                for (size_t i = 1; i < N; ++i)                                 \
                    if (r1.get(i) != r1.get(0))                                \
                        uniform = false;                                       \
                if (!uniform || r1.get(0) != r.get(k))                         \
                    viol(li, "unclassified", "{" + wit + ",\"lane\":" + std::to_string(k) + ",\"in_batch\":" + std::to_string((int)r.get(k)) + ",\"broadcast0\":" + std::to_string((int)r1.get(0)) + "}"); \
            }                                                                  \
            (void)sa;                                                          \
            (void)sb;                                                          \
        }                                                                      \
    }
    CMP("eq", va == vb, x == y);
    CMP("ne", va != vb, x != y);
    CMP("lt", va < vb, x < y);
    CMP("le", va <= vb, x <= y);
    CMP("gt", va > vb, x > y);
    CMP("ge", va >= vb, x >= y);
    CMP("xs_eq", xs::eq(va, vb), x == y);
    CMP("xs_neq", xs::neq(va, vb), x != y);
    CMP("xs_lt", xs::lt(va, vb), x < y);
    CMP("xs_le", xs::le(va, vb), x <= y);
    CMP("xs_gt", xs::gt(va, vb), x > y);
    CMP("xs_ge", xs::ge(va, vb), x >= y);
#undef CMP
}

template <class T>
static void bool_ops(const bool* m1, const bool* m2, const Ops<T>& in, const char* gen)
{
    using B = xs::batch<T, ARCH>;
    using BB = xs::batch_bool<T, ARCH>;
    constexpr size_t N = B::size;
    BB p = BB::load_unaligned(m1), q = BB::load_unaligned(m2);
    bool e[N];
    std::string wit = std::string("\"gen\":\"") + gen + "\",\"p\":" + hexarr(m1, N) + ",\"q\":" + hexarr(m2, N);
    uint64_t em = 0, eq = 0;
    size_t cnt = 0;
    for (size_t i = 0; i < N; ++i)
    {
        if (m1[i])
        {
            em |= 1ull << i;
            cnt++;
        }
        if (m2[i])
            eq |= 1ull << i;
    }
    unsigned cellbase = (unsigned)(mix(em, eq) & 0x3fff) * 128;
#define BOP(name, expr, refexpr)                             \
    {                                                        \
        OpStat& st = VH_ST("C03", name);                     \
        if (st.on)                                           \
        {                                                    \
            mark_case(name, tname<T>(), m1, N);              \
            for (size_t i = 0; i < N; ++i)                   \
            {                                                \
                bool x = m1[i], y = m2[i];                   \
                (void)y;                                     \
                e[i] = (refexpr);                            \
            }                                                \
            BB r = (expr);                                   \
            expect_bool<T>(st, r, e, "unclassified", wit, cellbase); \
        }                                                    \
    }
    BOP("bool_load", p, x);
    BOP("bool_and", p & q, x && y);
    BOP("bool_or", p | q, x || y);
    BOP("bool_xor", p ^ q, x != y);
    BOP("bool_not", ~p, !x);
    BOP("bool_lnot", !p, !x);
    BOP("bool_eq", p == q, x == y);
    BOP("bool_ne", p != q, x != y);
    BOP("bool_andnot", xs::bitwise_andnot(p, q), x && !y);
    BOP("bool_land", p && q, x && y);
    BOP("bool_lor", p || q, x || y);
    BOP("bool_copy_ctor", BB(p), x);
    // other API forms: named functions and compound assignment on batch_bool, scalar bool operand (broadcast)
    BOP("bool_xs_and", xs::bitwise_and(p, q), x && y);
    BOP("bool_xs_or", xs::bitwise_or(p, q), x || y);
    BOP("bool_xs_xor", xs::bitwise_xor(p, q), x != y);
    BOP("bool_xs_not", xs::bitwise_not(p), !x);
    BOP("bool_xs_eq", xs::eq(p, q), x == y);
    BOP("bool_xs_neq", xs::neq(p, q), x != y);
    BOP("bool_and_assign", (BB(p) &= q), x && y);
    BOP("bool_or_assign", (BB(p) |= q), x || y);
    BOP("bool_xor_assign", (BB(p) ^= q), x != y);
    BOP("bool_and_true", p & BB(true), x);
    BOP("bool_xor_true", p ^ BB(true), !x);
    BOP("bool_or_false", p | BB(false), x);
    BOP("bool_assign", ([&]() { BB t(false); t = p; return t; }()), x);
#undef BOP
    {
        OpStat& st = VH_ST("C03", "mask");
        if (st.on)
        {
            st.evals++;
            st.cell((unsigned)(em & 0xfffff));
            if (p.mask() != em)
                viol(st, "unclassified", "{" + wit + ",\"got\":\"" + hexv((uint64_t)p.mask()) + "\"}");
        }
    }
    {
        OpStat& st = VH_ST("C03", "from_mask");
        if (st.on)
        {
            mark_case("from_mask", tname<T>(), &em, 8);
            BB f = BB::from_mask(em);
            expect_bool<T>(st, f, m1, "unclassified", wit, cellbase);
        }
    }
    {
        OpStat& st = VH_ST("C03", "all_any_none_count");
        if (st.on)
        {
            st.evals += 4;
            st.cell((unsigned)(em & 0xfffff));
            if (xs::all(p) != (cnt == N) || xs::any(p) != (cnt > 0) || xs::none(p) != (cnt == 0) || xs::count(p) != cnt)
                viol(st, "unclassified", "{" + wit + ",\"all\":" + std::to_string(xs::all(p)) + ",\"any\":" + std::to_string(xs::any(p)) + ",\"none\":" + std::to_string(xs::none(p)) + ",\"count\":" + std::to_string(xs::count(p)) + "}");
        }
    }
    {
        // select: unmodified bit pattern of a[i] or b[i]
        OpStat& st = VH_ST("C03", "select");
        if (st.on)
        {
            alignas(64) T o[N];
            mark_case("select", tname<T>(), &in, 2 * sizeof(in.a));
            xs::select(p, B::load_aligned(in.a), B::load_aligned(in.b)).store_aligned(o);
            for (size_t i = 0; i < N; ++i)
            {
                T ex = m1[i] ? in.a[i] : in.b[i];
                st.evals++;
                st.cell(cellidx(in, i, 2) * 2 + (m1[i] ? 1 : 0));
                if (!same_bits(o[i], ex))
                    viol(st, "unclassified", "{" + wit3(in, i) + ",\"cond\":" + std::to_string((int)m1[i]) + ",\"got\":\"" + hexv(o[i]) + "\"}");
            }
        }
    }
    {
        // batch(batch_bool) gives 0/1
        OpStat& st = VH_ST("C03", "bool_to_numeric");
        if (st.on)
        {
            alignas(64) T o[N];
            mark_case("bool_to_numeric", tname<T>(), m1, N);
            B r(p);
            r.store_aligned(o);
            for (size_t i = 0; i < N; ++i)
            {
                st.evals++;
                st.cell(cellbase + (unsigned)i);
                if (!same_bits(o[i], (T)(m1[i] ? 1 : 0)))
                    viol(st, "unclassified", "{" + wit + ",\"lane\":" + std::to_string(i) + ",\"got\":\"" + hexv(o[i]) + "\"}");
            }
        }
    }
    {
        // batch_bool_cast to the other same-width element type and back
        OpStat& st = VH_ST("C03", "batch_bool_cast");
        if (st.on)
        {
            using T2 = typename Other<T>::type;
            mark_case("batch_bool_cast", tname<T>(), m1, N);
            auto c = xs::batch_bool_cast<T2>(p);
            expect_bool<T2>(st, c, m1, "unclassified", wit, cellbase);
            auto back = xs::batch_bool_cast<T>(c);
            expect_bool<T>(st, back, m1, "unclassified", wit, cellbase);
        }
    }
}

template <class T>
static void run_type(uint64_t seed)
{
    using B = xs::batch<T, ARCH>;
    using BB = xs::batch_bool<T, ARCH>;
    constexpr size_t N = B::size;
    Rng rng(mix(seed, strhash(tname<T>())));
    Ops<T> in;
    bool m1[N], m2[N];
    long iters = budget(6000, 200000);
    for (long k = 0; k < iters; ++k)
    {
        in.fill_hostile(rng);
        for (size_t i = 0; i < N; ++i)
        {
            uint64_t r = rng.next();
            if ((r & 3) == 0)
            {
                in.b[i] = in.a[i]; // force equality in 25% of lanes
                in.cb[i] = in.ca[i];
            }
            m1[i] = (r >> 8) & 1;
            m2[i] = (r >> 9) & 1;
        }
        compare_ops<T>(in);
        bool_ops<T>(m1, m2, in, "random");
    }
    // structured masks: one-hot, all-but-one, prefix, suffix for every lane
    for (size_t k = 0; k <= N; ++k)
        for (int pat = 0; pat < 4; ++pat)
        {
            in.fill_hostile(rng);
            for (size_t i = 0; i < N; ++i)
            {
                m1[i] = pat == 0 ? (i == k) : pat == 1 ? (i != k) : pat == 2 ? (i < k) : (i >= k);
                m2[i] = rng.next() & 1;
            }
            bool_ops<T>(m1, m2, in, "structured");
            bool_ops<T>(m2, m1, in, "structured");
        }
    // all 2^N masks for N <= 16 (paired with a random second mask); all pairs for N <= 8 in the thorough tier, N <= 4 always
    if (N <= 16)
    {
        for (uint64_t m = 0; m < (1ull << N); ++m)
        {
            uint64_t q = rng.next();
            for (size_t i = 0; i < N; ++i)
            {
                m1[i] = (m >> i) & 1;
                m2[i] = (q >> i) & 1;
            }
            if ((m & 255) == 0)
                in.fill_hostile(rng);
            bool_ops<T>(m1, m2, in, "all_masks");
        }
        info(std::string("all_masks_") + tname<T>(), std::to_string(1ull << N));
    }
    if (N <= 4 || (N <= 8 && ctx().tier))
    {
        for (uint64_t m = 0; m < (1ull << N); ++m)
            for (uint64_t q = 0; q < (1ull << N); ++q)
            {
                for (size_t i = 0; i < N; ++i)
                {
                    m1[i] = (m >> i) & 1;
                    m2[i] = (q >> i) & 1;
                }
                bool_ops<T>(m1, m2, in, "all_mask_pairs");
            }
        info(std::string("all_mask_pairs_") + tname<T>(), std::to_string(1ull << (2 * N)));
    }
    (void)sizeof(BB);
}

void vh::unit_main()
{
    uint64_t s = ctx().seed;
    run_type<int8_t>(s);
    run_type<uint8_t>(s);
    run_type<int16_t>(s);
    run_type<uint16_t>(s);
    run_type<int32_t>(s);
    run_type<uint32_t>(s);
    run_type<int64_t>(s);
    run_type<uint64_t>(s);
    run_type<float>(s);
    run_type<double>(s);
}
VH_MAIN()
