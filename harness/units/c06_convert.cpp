// C06 conversions: batch_cast / to_int / to_float / broadcast_as / load_as / store_as against
// static_cast (when the source value is representable), bitwise_cast against memcmp.
#include "../common/vcheck.hpp"
#include "../common/ref.hpp"
using namespace vh;

// hostile source values for conversions: lattice around the powers of two where the emulated
// conversions switch strategy
template <class T>
static typename std::enable_if<std::is_floating_point<T>::value, T>::type conv_src(Rng& r, int& cls)
{
    uint64_t k = r.next();
    int sel = (int)(k % 12);
    if (sel == 0)
        return hostile<T>(r, cls);
    if (sel == 1)
    {
        cls = 24;
        return frombits<T>((bits_t<T>)r.next());
    }
    if (sel < 7)
    {
        static const int ex[] = { 0, 1, 22, 23, 24, 30, 31, 32, 33, 51, 52, 53, 54, 62, 63, 64 };
        int e = ex[r.next() % 16];
        T v = std::ldexp((T)1, e);
        int d = (int)(r.next() % 7) - 3;
        for (int i = 0; i < std::abs(d); ++i)
            v = ref::nextafter(v, d > 0 ? std::numeric_limits<T>::infinity() : (T)0);
        cls = e % 16;
        if (r.next() & 1)
            v = -v;
        return v;
    }
    if (sel < 9)
    {
        cls = 28;
        return (T)((int64_t)(r.next() % 4001) - 2000) / (T)4;
    }
    cls = 29;
    return (T)(int64_t)r.next() / (T)(1ull << (r.next() % 40));
}
template <class T>
static typename std::enable_if<std::is_integral<T>::value, T>::type conv_src(Rng& r, int& cls)
{
    uint64_t k = r.next();
    if (k % 3 == 0)
    { // 2^e + d: rounding boundaries of the floating destination
        using U = typename std::make_unsigned<T>::type;
        int e = (int)((k >> 8) % (sizeof(T) * 8));
        U v = (U)(((U)1 << e) + (U)((k >> 20) % 9) - 4);
        if ((k >> 30) & 1)
            v = (U)(v + ((U)1 << ((k >> 32) % (sizeof(T) * 8))));
        if ((k >> 40) & 1)
            v = (U)(0 - v);
        cls = 16 + e % 16;
        T t;
        memcpy(&t, &v, sizeof t);
        return t;
    }
    return hostile<T>(r, cls);
}

template <class F, class To>
static bool representable(F v)
{
    if (std::is_floating_point<F>::value && std::is_integral<To>::value)
    {
        long double x = (long double)v;
        if (!(x == x))
            return false;
        long double t = std::trunc(x);
        return t >= (long double)std::numeric_limits<To>::min() && t <= (long double)std::numeric_limits<To>::max();
    }
    return true;
}
template <class F>
static const char* cls_src(F v)
{
    if (std::is_floating_point<F>::value)
    {
        long double x = (long double)v;
        if (x != x)
            return "nan";
        if (x < 0)
            return "negative_source";
        if (x >= 9223372036854775808.0L)
            return "ge_2^63";
        if (x >= 2147483648.0L)
            return "ge_2^31";
        return "unclassified";
    }
    if (std::is_signed<F>::value)
        return v < 0 ? "negative_source" : "unclassified";
    return (long double)v >= (sizeof(F) == 8 ? 9223372036854775808.0L : 2147483648.0L) ? "top_bit_set" : "unclassified";
}

template <class To>
static bool same_out(To g, To e) { return same_bits(g, e) || (g != g && e != e); }

#define ST2(prop, op) ([]() -> OpStat& { static OpStat& s = reg(prop, op, (std::string(tname<From>()) + "_to_" + tname<To>()).c_str()); return s; }())
template <class From, class To>
static void conv_batch(const From* a, const int* ca, long it)
{
    using BF = xs::batch<From, ARCH>;
    using BT = xs::batch<To, ARCH>;
    constexpr size_t N = BF::size;
    static_assert(BF::size == BT::size, "");
    alignas(64) To o[N];
    auto verify = [&](OpStat& st, const char* what)
    {
        (void)what;
        for (size_t i = 0; i < N; ++i)
        {
            if (!representable<From, To>(a[i]))
                continue;
            To e = static_cast<To>(a[i]);
            st.evals++;
            st.cell((unsigned)(i << 6 | (unsigned)ca[i]));
            if (!same_out(o[i], e))
                viol(st, cls_src<From>(a[i]), "{\"in\":\"" + hexv(a[i]) + "\",\"got\":\"" + hexv(o[i]) + "\",\"exp\":\"" + hexv(e) + "\",\"lane\":" + std::to_string(i) + "}");
        }
        if (st.want_sample())
            st.samples.push_back("{\"in\":" + hexarr(a, N) + ",\"got\":" + hexarr(o, N) + "}");
    };
    BF va = BF::load_aligned(a);
    {
        OpStat& st = ST2("C06", "batch_cast");
        if (st.on)
        {
            mark_case("batch_cast", st.type.c_str(), a, N * sizeof(From));
            xs::batch_cast<To>(va).store_aligned(o);
            verify(st, "batch_cast");
        }
        OpStat& li = ST2("C13", "batch_cast");
        if (li.on)
        {
            size_t k = (size_t)it % N;
            if (representable<From, To>(a[k]))
            {
                alignas(64) To o1[N];
                xs::batch_cast<To>(va).store_aligned(o);
                xs::batch_cast<To>(BF(a[k])).store_aligned(o1);
                li.evals++;
                li.cell((unsigned)(k << 6 | (unsigned)ca[k]));
                if (!same_out(o1[0], o[k]))
                    viol(li, "unclassified", "{\"in\":\"" + hexv(a[k]) + "\",\"in_batch\":\"" + hexv(o[k]) + "\",\"broadcast0\":\"" + hexv(o1[0]) + "\",\"lane\":" + std::to_string(k) + ",\"companions\":" + hexarr(a, N) + "}");
            }
        }
    }
    {
        OpStat& st = ST2("C06", "load_as");
        if (st.on)
        {
            mark_case("load_as", st.type.c_str(), a, N * sizeof(From));
            BT l = xs::load_as<To, ARCH>(a, xs::aligned_mode {});
            l.store_aligned(o);
            verify(st, "load_as");
            alignas(64) From ua[N + 1];
            From* up = reinterpret_cast<From*>(reinterpret_cast<char*>(ua) + (sizeof(From) > 1 ? 1 : 0));
            memcpy((void*)up, a, sizeof(From) * N);
            xs::load_as<To, ARCH>(up, xs::unaligned_mode {}).store_aligned(o);
            verify(st, "load_as_unaligned");
        }
    }
    {
        OpStat& st = ST2("C06", "store_as");
        if (st.on)
        {
            mark_case("store_as", st.type.c_str(), a, N * sizeof(From));
            xs::store_as(o, va, xs::aligned_mode {});
            verify(st, "store_as");
            memset(o, 0, sizeof o);
            xs::store_as(o, va, xs::unaligned_mode {});
            verify(st, "store_as_unaligned");
        }
    }
    {
        OpStat& st = ST2("C06", "broadcast_as");
        if (st.on)
        {
            size_t k = (size_t)it % N;
            if (representable<From, To>(a[k]))
            {
                mark_case("broadcast_as", st.type.c_str(), a, N * sizeof(From));
                BT b = xs::broadcast_as<To, ARCH>(a[k]);
                b.store_aligned(o);
                To e = static_cast<To>(a[k]);
                for (size_t i = 0; i < N; ++i)
                {
                    st.evals++;
                    st.cell((unsigned)(i << 6 | (unsigned)ca[k]));
                    if (!same_out(o[i], e))
                        viol(st, cls_src<From>(a[k]), "{\"in\":\"" + hexv(a[k]) + "\",\"got\":\"" + hexv(o[i]) + "\",\"exp\":\"" + hexv(e) + "\",\"lane\":" + std::to_string(i) + "}");
                }
            }
        }
    }
}

// ---------------------------------------------------------------- width-changing integer transfers
// store_as(M*, batch<L>) and load_as<L>(M const*) with memory element type M of another width than the lane type L: every
// lane must be static_cast<M>(lane) / static_cast<L>(element), i.e. modular wrap when narrowing (never saturation) and sign- or
// zero-extension by the SOURCE type when widening; full-range hostile values.  (The placement side of these forms -- exactly
// size*sizeof(M) bytes -- is C04's business.)
template <class L, class M>
static void width_pair(uint64_t seed)
{
    using BL = xs::batch<L, ARCH>;
    constexpr size_t N = BL::size;
    const std::string tn = std::string(tname<L>()) + "_lanes_" + tname<M>() + "_mem";
    static OpStat& ss = reg("C06", "store_as_other_width", tn.c_str());
    static OpStat& sl = reg("C06", "load_as_other_width", tn.c_str());
    if (!ss.on && !sl.on)
        return;
    Rng rng(mix(seed, strhash(tn.c_str())));
    alignas(64) L a[N], lo[N];
    alignas(64) M m[N + 8], mo[N + 8];
    long iters = budget(3000, 100000);
    for (long it = 0; it < iters; ++it)
    {
        int c;
        for (size_t i = 0; i < N; ++i)
        {
            a[i] = hostile<L>(rng, c);
            m[i] = hostile<M>(rng, c);
        }
        // values just outside / inside the range of the narrower type, both signs
        if (it % 4 == 1)
            for (size_t i = 0; i < N; ++i)
            {
                const int nb = (int)(8 * std::min(sizeof(L), sizeof(M)));
                __int128 edge = ((__int128)1 << (nb - (int)(rng.next() % 2))) * ((rng.next() & 1) ? 1 : -1) + (__int128)((int)(rng.next() % 7) - 3);
                a[i] = (L)(typename std::make_unsigned<L>::type)(unsigned __int128)edge;
            }
        BL va = BL::load_aligned(a);
        if (ss.on)
        {
            for (int form = 0; form < 4; ++form)
            {
                memset(mo, 0x5a, sizeof mo);
                mark_case("store_as_other_width", tn.c_str(), a, sizeof a);
                M* dst = (form & 1) ? mo + 1 : mo; // element-aligned but (for form 1, 3) not register-aligned
                if (form == 0)
                    xs::store_as(dst, va, xs::aligned_mode {});
                else if (form == 1)
                    xs::store_as(dst, va, xs::unaligned_mode {});
                else if (form == 2)
                    va.store_aligned(dst);
                else
                    va.store_unaligned(dst);
                for (size_t i = 0; i < N; ++i)
                {
                    ss.evals++;
                    ss.cell((unsigned)(form << 8 | (i & 63) << 2 | (a[i] < 0 ? 1 : 0) | (it % 4 == 1 ? 2 : 0)));
                    const M e = static_cast<M>(a[i]);
                    if (dst[i] != e)
                    {
                        viol(ss, "unclassified", "{\"form\":" + std::to_string(form) + ",\"lane\":" + std::to_string(i) + ",\"in\":\"" + hexv(a[i]) + "\",\"got\":\"" + hexv(dst[i]) + "\",\"exp\":\"" + hexv(e) + "\"}");
                        break;
                    }
                }
                if (ss.want_sample())
                    ss.samples.push_back("{\"form\":" + std::to_string(form) + ",\"in\":" + hexarr(a, N) + "}");
            }
        }
        if (sl.on)
        {
            for (int form = 0; form < 4; ++form)
            {
                mark_case("load_as_other_width", tn.c_str(), m, sizeof(M) * N);
                memcpy(mo + 1, m, sizeof(M) * N);
                const M* src = (form & 1) ? mo + 1 : m;
                BL l = form == 0 ? xs::load_as<L, ARCH>(src, xs::aligned_mode {}) : form == 1 ? xs::load_as<L, ARCH>(src, xs::unaligned_mode {})
                    : form == 2                                                                 ? BL::load_aligned(src)
                                                                                                : BL::load_unaligned(src);
                l.store_aligned(lo);
                for (size_t i = 0; i < N; ++i)
                {
                    sl.evals++;
                    sl.cell((unsigned)(form << 8 | (i & 63) << 2 | (m[i] < 0 ? 1 : 0)));
                    const L e = static_cast<L>(m[i]);
                    if (lo[i] != e)
                    {
                        viol(sl, "unclassified", "{\"form\":" + std::to_string(form) + ",\"lane\":" + std::to_string(i) + ",\"in\":\"" + hexv(m[i]) + "\",\"got\":\"" + hexv(lo[i]) + "\",\"exp\":\"" + hexv(e) + "\"}");
                        break;
                    }
                }
            }
        }
    }
}

// to_float on int32/int64 (to_int is monitored with the rounding functions in the C08 unit)
template <class I>
static void to_float_batch(const I* a, const int* ca)
{
    using F = xs::as_float_t<I>;
    using BI = xs::batch<I, ARCH>;
    constexpr size_t N = BI::size;
    static OpStat& st = reg("C06", "to_float", tname<I>());
    if (!st.on)
        return;
    alignas(64) F o[N];
    mark_case("to_float", tname<I>(), a, N * sizeof(I));
    xs::to_float(BI::load_aligned(a)).store_aligned(o);
    for (size_t i = 0; i < N; ++i)
    {
        F e = static_cast<F>(a[i]);
        st.evals++;
        st.cell((unsigned)(i << 6 | (unsigned)ca[i]));
        if (!same_bits(o[i], e))
            viol(st, cls_src<I>(a[i]), "{\"in\":\"" + hexv(a[i]) + "\",\"got\":\"" + hexv(o[i]) + "\",\"exp\":\"" + hexv(e) + "\"}");
    }
}

template <class From, class To>
static void run_pair(uint64_t seed)
{
    using BF = xs::batch<From, ARCH>;
    constexpr size_t N = BF::size;
    Rng rng(mix(seed, strhash(tname<From>()) ^ (strhash(tname<To>()) << 1)));
    alignas(64) From a[N];
    int ca[N];
    long iters = budget(20000, 400000);
    long it = 0;
    for (long k = 0; k < iters; ++k, ++it)
    {
        for (size_t i = 0; i < N; ++i)
            a[i] = conv_src<From>(rng, ca[i]);
        conv_batch<From, To>(a, ca, it);
    }
    // 32-bit sources: all 2^32 values (thorough) or a 1/509 strided sample (quick)
    if (sizeof(From) == 4)
    {
        uint64_t stride = sweep_stride(509), start = seed % stride, cnt = 0;
        size_t fill = 0;
        for (uint64_t p = start; p < (1ull << 32); p += stride)
        {
            uint32_t u = (uint32_t)p;
            memcpy(&a[fill], &u, 4);
            ca[fill] = 32 + (int)(u >> 28);
            ++cnt;
            if (++fill == N)
            {
                conv_batch<From, To>(a, ca, it++);
                fill = 0;
            }
        }
        info(std::string("src32_patterns_") + tname<From>() + "_to_" + tname<To>(), std::to_string(cnt));
    }
}

// bitwise_cast between every ordered pair of element types: register bytes preserved, involution
template <class From, class To>
static void bitcast_pair(Rng& rng)
{
    using BF = xs::batch<From, ARCH>;
    using BT = xs::batch<To, ARCH>;
    static OpStat& st = reg("C06", "bitwise_cast", (std::string(tname<From>()) + "_to_" + tname<To>()).c_str());
    if (!st.on)
        return;
    constexpr size_t BYTES = sizeof(From) * BF::size;
    static_assert(BYTES == sizeof(To) * BT::size, "");
    alignas(64) unsigned char src[BYTES], dst[BYTES], back[BYTES];
    long iters = budget(300, 3000);
    for (long k = 0; k < iters; ++k)
    {
        for (size_t i = 0; i < BYTES; ++i)
            src[i] = (unsigned char)rng.next();
        if (k % 3 == 0) // signalling-NaN / all-ones / sign-bit patterns
            memset(src, k % 2 ? 0xff : 0x80, BYTES / 2);
        mark_case("bitwise_cast", st.type.c_str(), src, BYTES);
        BF v = BF::load_aligned(reinterpret_cast<From*>(src));
        BT c = xs::bitwise_cast<To>(v);
        c.store_aligned(reinterpret_cast<To*>(dst));
        xs::bitwise_cast<From>(c).store_aligned(reinterpret_cast<From*>(back));
        st.evals += 2;
        st.cell((unsigned)k & 1023);
        if (memcmp(src, dst, BYTES) || memcmp(src, back, BYTES))
            viol(st, "unclassified", "{\"src\":" + hexarr(src, BYTES) + ",\"cast\":" + hexarr(dst, BYTES) + ",\"back\":" + hexarr(back, BYTES) + "}");
    }
}
template <class From>
static void bitcast_from(Rng& rng)
{
    bitcast_pair<From, int8_t>(rng);
    bitcast_pair<From, uint8_t>(rng);
    bitcast_pair<From, int16_t>(rng);
    bitcast_pair<From, uint16_t>(rng);
    bitcast_pair<From, int32_t>(rng);
    bitcast_pair<From, uint32_t>(rng);
    bitcast_pair<From, int64_t>(rng);
    bitcast_pair<From, uint64_t>(rng);
    bitcast_pair<From, float>(rng);
    bitcast_pair<From, double>(rng);
}

template <class I>
static void run_to_float(uint64_t seed)
{
    using BI = xs::batch<I, ARCH>;
    constexpr size_t N = BI::size;
    Rng rng(mix(seed, 77 + sizeof(I)));
    alignas(64) I a[N];
    int ca[N];
    long iters = budget(20000, 400000);
    for (long k = 0; k < iters; ++k)
    {
        for (size_t i = 0; i < N; ++i)
            a[i] = conv_src<I>(rng, ca[i]);
        to_float_batch<I>(a, ca);
    }
}

void vh::unit_main()
{
    uint64_t s = ctx().seed;
    run_pair<int8_t, uint8_t>(s);
    run_pair<uint8_t, int8_t>(s);
    run_pair<int16_t, uint16_t>(s);
    run_pair<uint16_t, int16_t>(s);
    run_pair<int32_t, uint32_t>(s);
    run_pair<uint32_t, int32_t>(s);
    run_pair<int32_t, float>(s);
    run_pair<uint32_t, float>(s);
    run_pair<float, int32_t>(s);
    run_pair<float, uint32_t>(s);
    run_pair<int64_t, uint64_t>(s);
    run_pair<uint64_t, int64_t>(s);
    run_pair<int64_t, double>(s);
    run_pair<uint64_t, double>(s);
    run_pair<double, int64_t>(s);
    run_pair<double, uint64_t>(s);
    run_to_float<int32_t>(s);
    run_to_float<int64_t>(s);
    width_pair<int32_t, int8_t>(s);
    width_pair<int32_t, uint8_t>(s);
    width_pair<int32_t, int16_t>(s);
    width_pair<uint32_t, uint16_t>(s);
    width_pair<uint32_t, int8_t>(s);
    width_pair<int64_t, int32_t>(s);
    width_pair<int64_t, uint16_t>(s);
    width_pair<uint64_t, uint32_t>(s);
    width_pair<uint64_t, int8_t>(s);
    width_pair<int16_t, int8_t>(s);
    width_pair<uint16_t, uint8_t>(s);
    width_pair<int16_t, int32_t>(s);
    width_pair<int8_t, int16_t>(s);
    width_pair<uint8_t, int32_t>(s);
    width_pair<int32_t, int64_t>(s);
    width_pair<uint32_t, uint64_t>(s);
    Rng rng(mix(s, 4242));
    bitcast_from<int8_t>(rng);
    bitcast_from<uint8_t>(rng);
    bitcast_from<int16_t>(rng);
    bitcast_from<uint16_t>(rng);
    bitcast_from<int32_t>(rng);
    bitcast_from<uint32_t>(rng);
    bitcast_from<int64_t>(rng);
    bitcast_from<uint64_t>(rng);
    bitcast_from<float>(rng);
    bitcast_from<double>(rng);
}
VH_MAIN()
