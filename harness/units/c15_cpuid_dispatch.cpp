// C15 CPU detection and dispatch.
// The XSIMD_VERIF hook substitutes the cpuid / xgetbv primitives of xsimd_cpuid.hpp by a table the
// harness controls and bypasses the function-local static cache; every presentable configuration of
// the 21 feature bits the detector reads x 5 OS states is enumerated and each reported architecture
// is checked against a truth table written from the Intel SDM / AMD APM (independent of the code).
#include "../common/vcheck.hpp"
#include <fstream>
#include <memory>
#include <sstream>
#include <tuple>
using namespace vh;

#ifndef XSIMD_VERIF
#error "the C15 unit needs the XSIMD_VERIF cpuid hook"
#endif

// ------------------------------------------------------------------ injected CPU
struct FakeCpu
{
    uint32_t l1_ecx = 0, l1_edx = 0, l7_ebx = 0, l7_ecx = 0, l71_eax = 0, l8_ecx = 0;
    uint32_t xcr0 = 0;
    long xgetbv_calls = 0;
    // != 0: every bit of every CPUID register that is NOT one of the feature bits of the property (and not OSXSAVE) is
    // filled with pseudo-random noise derived from this word: real CPUs set dozens of such bits (BITALG, VPOPCNTDQ,
    // RDPID, the family/model fields of leaf 1 EAX, ...) and the detector must ignore all of them
    uint64_t noise = 0;
};
static FakeCpu g_cpu;
// bits owned by the enumeration (the detector's feature bits, the reserved probe bit, OSXSAVE): never touched by the noise
static const uint32_t OWN_L1_ECX = (1u << 0) | (1u << 9) | (1u << 12) | (1u << 19) | (1u << 20) | (1u << 28) | (1u << 27);
static const uint32_t OWN_L1_EDX = (1u << 26);
static const uint32_t OWN_L7_EBX = (1u << 5) | (1u << 16) | (1u << 17) | (1u << 21) | (1u << 26) | (1u << 27) | (1u << 28) | (1u << 30);
static const uint32_t OWN_L7_ECX = (1u << 1) | (1u << 6) | (1u << 11) | (1u << 31);
static const uint32_t OWN_L71_EAX = (1u << 4);
static const uint32_t OWN_L8_ECX = (1u << 16);
static void fake_cpuid(int reg[4], int level, int count)
{
    uint32_t nz[4] = { 0, 0, 0, 0 };
    if (g_cpu.noise)
        for (int k = 0; k < 4; ++k)
            nz[k] = (uint32_t)vh::mix(g_cpu.noise, ((uint64_t)(uint32_t)level << 8) ^ ((uint64_t)count << 4) ^ (uint64_t)k);
    reg[0] = (int)nz[0];
    reg[1] = (int)nz[1];
    reg[2] = (int)nz[2];
    reg[3] = (int)nz[3];
    if (level == 1)
    {
        reg[2] = (int)(g_cpu.l1_ecx | (nz[2] & ~OWN_L1_ECX));
        reg[3] = (int)(g_cpu.l1_edx | (nz[3] & ~OWN_L1_EDX));
    }
    else if (level == 7 && count == 0)
    {
        reg[1] = (int)(g_cpu.l7_ebx | (nz[1] & ~OWN_L7_EBX));
        reg[2] = (int)(g_cpu.l7_ecx | (nz[2] & ~OWN_L7_ECX));
    }
    else if (level == 7 && count == 1)
        reg[0] = (int)(g_cpu.l71_eax | (nz[0] & ~OWN_L71_EAX));
    else if ((unsigned)level == 0x80000001u)
        reg[2] = (int)(g_cpu.l8_ecx | (nz[2] & ~OWN_L8_ECX));
}
static uint32_t fake_xcr0()
{
    g_cpu.xgetbv_calls++;
    return g_cpu.xcr0;
}
static xsimd::verif::cpuid_source_t g_src = { fake_cpuid, fake_xcr0 };

// the 21 feature bits the detector reads, in a fixed order
struct FeatBit
{
    const char* name;
    int leaf; // 0: l1_ecx 1: l1_edx 2: l7_ebx 3: l7_ecx 4: l71_eax 5: l8_ecx
    int bit;
};
static const FeatBit FEAT[21] = {
    { "sse2", 1, 26 }, { "sse3", 0, 0 }, { "ssse3", 0, 9 }, { "sse4_1", 0, 19 }, { "sse4_2", 0, 20 }, { "fma", 0, 12 }, { "avx", 0, 28 },
    { "avx2", 2, 5 }, { "avx512f", 2, 16 }, { "avx512dq", 2, 17 }, { "avx512ifma", 2, 21 }, { "avx512pf", 2, 26 }, { "avx512er", 2, 27 },
    { "avx512cd", 2, 28 }, { "avx512bw", 2, 30 }, { "avx512vbmi", 3, 1 }, { "avx512vbmi2", 3, 6 }, { "avx512vnni", 3, 11 }, { "avxvnni", 4, 4 },
    { "fma4", 5, 16 }, { "reserved_probe_bit", 3, 31 } // a bit the detector must ignore
};
enum
{
    F_SSE2,
    F_SSE3,
    F_SSSE3,
    F_SSE41,
    F_SSE42,
    F_FMA,
    F_AVX,
    F_AVX2,
    F_512F,
    F_512DQ,
    F_512IFMA,
    F_512PF,
    F_512ER,
    F_512CD,
    F_512BW,
    F_512VBMI,
    F_512VBMI2,
    F_512VNNI,
    F_AVXVNNI,
    F_FMA4,
    F_RESERVED
};
static void set_features(uint32_t mask)
{
    g_cpu.l1_ecx &= (1u << 27); // keep OSXSAVE
    g_cpu.l1_edx = g_cpu.l7_ebx = g_cpu.l7_ecx = g_cpu.l71_eax = g_cpu.l8_ecx = 0;
    uint32_t* regs[6] = { &g_cpu.l1_ecx, &g_cpu.l1_edx, &g_cpu.l7_ebx, &g_cpu.l7_ecx, &g_cpu.l71_eax, &g_cpu.l8_ecx };
    for (int i = 0; i < 21; ++i)
        if (mask >> i & 1)
            *regs[FEAT[i].leaf] |= 1u << FEAT[i].bit;
}
struct OsState
{
    const char* name;
    bool osxsave;
    uint32_t xcr0;
    bool presentable;
};
static const OsState OSSTATES[] = {
    { "osxsave_clear", false, 0, true },
    { "xcr0_x87_only", true, 0x1, true },
    { "xcr0_sse", true, 0x3, true },
    { "xcr0_sse_avx", true, 0x7, true },
    { "xcr0_sse_avx_avx512", true, 0xe7, true },
    // not presentable by hardware: only required not to crash / not to report beyond the truth table is NOT asserted
    { "np_avx_without_sse", true, 0x5, false },
    { "np_zmm_without_opmask", true, 0xc7, false },
    { "np_opmask_only", true, 0x27, false },
    { "np_avx512_without_avx", true, 0xe3, false },
};
static void set_os(const OsState& s)
{
    if (s.osxsave)
        g_cpu.l1_ecx |= (1u << 27);
    else
        g_cpu.l1_ecx &= ~(1u << 27);
    g_cpu.xcr0 = s.xcr0;
}

// ------------------------------------------------------------------ the architectures and the truth table
enum RegFile
{
    XMM,
    YMM,
    ZMM
};
struct ArchRow
{
    const char* name;
    uint32_t need; // feature-bit mask (indices into FEAT) that must all be advertised
    RegFile rf;
};
#define FB(x) (1u << (x))
template <class A>
struct row;
#define ROW(A, nm, needmask, rfile)                      \
    template <>                                          \
    struct row<A>                                        \
    {                                                    \
        static ArchRow get() { return { nm, needmask, rfile }; } \
    };
ROW(xs::sse2, "sse2", FB(F_SSE2), XMM)
ROW(xs::sse3, "sse3", FB(F_SSE3), XMM)
ROW(xs::ssse3, "ssse3", FB(F_SSSE3), XMM)
ROW(xs::sse4_1, "sse4_1", FB(F_SSE41), XMM)
ROW(xs::sse4_2, "sse4_2", FB(F_SSE42), XMM)
ROW(xs::fma3<xs::sse4_2>, "fma3<sse4_2>", FB(F_FMA), YMM) // FMA3 is VEX encoded
ROW(xs::fma4, "fma4", FB(F_FMA4), YMM)
ROW(xs::avx, "avx", FB(F_AVX), YMM)
ROW(xs::fma3<xs::avx>, "fma3<avx>", FB(F_FMA) | FB(F_AVX), YMM)
ROW(xs::avx2, "avx2", FB(F_AVX2), YMM)
ROW(xs::fma3<xs::avx2>, "fma3<avx2>", FB(F_FMA) | FB(F_AVX2), YMM)
ROW(xs::avxvnni, "avxvnni", FB(F_AVXVNNI), YMM)
ROW(xs::avx512f, "avx512f", FB(F_512F), ZMM)
ROW(xs::avx512cd, "avx512cd", FB(F_512CD), ZMM)
ROW(xs::avx512dq, "avx512dq", FB(F_512DQ), ZMM)
ROW(xs::avx512bw, "avx512bw", FB(F_512BW), ZMM)
ROW(xs::avx512er, "avx512er", FB(F_512ER), ZMM)
ROW(xs::avx512pf, "avx512pf", FB(F_512PF), ZMM)
ROW(xs::avx512ifma, "avx512ifma", FB(F_512IFMA), ZMM)
ROW(xs::avx512vbmi, "avx512vbmi", FB(F_512VBMI), ZMM)
ROW(xs::avx512vbmi2, "avx512vbmi2", FB(F_512VBMI2), ZMM)
ROW(xs::avx512vnni<xs::avx512bw>, "avx512vnni<avx512bw>", FB(F_512VNNI), ZMM)
ROW(xs::avx512vnni<xs::avx512vbmi2>, "avx512vnni<avx512vbmi2>", FB(F_512VNNI) | FB(F_512VBMI2), ZMM)

using X86 = xs::all_x86_architectures;
constexpr size_t NARCH = 23;

static bool os_ok(RegFile rf, const OsState& os)
{
    bool sse = os.osxsave ? (os.xcr0 >> 1 & 1) : true; // without XSAVE the OS uses FXSAVE: XMM state assumed enabled
    bool ymm = os.osxsave && (os.xcr0 >> 1 & 1) && (os.xcr0 >> 2 & 1);
    bool zmm = ymm && ((os.xcr0 >> 5 & 7) == 7);
    return rf == XMM ? sse : rf == YMM ? ymm : zmm;
}

template <class... As>
static void rows_of(xs::arch_list<As...>, ArchRow* out)
{
    ArchRow r[] = { row<As>::get()... };
    for (size_t i = 0; i < sizeof...(As); ++i)
        out[i] = r[i];
}
template <class... As>
static void report_of(xs::arch_list<As...>, const xs::detail::supported_arch& sa, bool* out)
{
    bool r[] = { sa.has(As {})... };
    for (size_t i = 0; i < sizeof...(As); ++i)
        out[i] = r[i];
}
// derives[i][j]: arch i derives from (extends) arch j
template <class A, class... Bs>
static void derive_row(bool* out)
{
    bool r[] = { (std::is_base_of<Bs, A>::value && !std::is_same<Bs, A>::value)... };
    for (size_t i = 0; i < sizeof...(Bs); ++i)
        out[i] = r[i];
}
template <class... As>
static void derive_matrix(xs::arch_list<As...>, bool (*out)[NARCH])
{
    size_t i = 0;
    (void)std::initializer_list<int> { (derive_row<As, As...>(out[i++]), 0)... };
}

static std::string cfg_json(uint32_t feat, const OsState& os)
{
    std::string s = "\"os_state\":\"" + std::string(os.name) + "\",\"xcr0\":\"" + hexv(os.xcr0) + "\",\"osxsave\":" + (os.osxsave ? "true" : "false") + ",\"feature_bits\":[";
    bool first = true;
    for (int i = 0; i < 21; ++i)
        if (feat >> i & 1)
        {
            s += (first ? "\"" : ",\"") + std::string(FEAT[i].name) + "\"";
            first = false;
        }
    return s + "],\"foreign_bit_noise\":\"" + hexv(g_cpu.noise) + "\"";
}

static void detection(uint64_t seed)
{
    static OpStat& st = reg("C15", "available_only_if_cpu_and_os", "x86");
    static OpStat& sm = reg("C15", "availability_monotone_on_closed_cpus", "x86");
    static OpStat& sn = reg("C15", "nonpresentable_os_state_no_crash", "x86");
    if (!st.on && !sm.on && !sn.on)
        return;
    (void)seed;
    ArchRow rows[NARCH];
    rows_of(X86 {}, rows);
    static bool derives[NARCH][NARCH];
    derive_matrix(X86 {}, derives);
    xsimd::verif::cpuid_source() = &g_src;
    xsimd::verif::bypass_cache() = true;
    bool rep[NARCH];
    uint64_t nconf = 0;
    for (const OsState& os : OSSTATES)
    {
        set_os(os);
        // all 2^21 feature-bit combinations for presentable OS states; a 2^-5 stride for the others
        uint32_t step = os.presentable ? 1 : 37;
        for (uint32_t feat = 0; feat < (1u << 21); feat += step)
        {
            set_features(feat);
            // half of the configurations carry noise in every foreign bit (chosen by a hash of the configuration, so each
            // feature-bit pattern is seen both clean and noisy across the OS states and seeds)
            {
                uint64_t h = vh::mix(ctx().seed, ((uint64_t)(&os - OSSTATES) << 32) | feat);
                g_cpu.noise = (h & 1) ? (h | 2) : 0;
            }
            g_cpu.xgetbv_calls = 0;
            mark_case("detect", os.name, &g_cpu, sizeof g_cpu);
            xs::detail::supported_arch sa = xs::available_architectures();
            report_of(X86 {}, sa, rep);
            ++nconf;
            if (!os.presentable)
            {
                sn.evals++;
                sn.cell((unsigned)(feat & 0xfff));
                continue;
            }
            if (!os.osxsave && g_cpu.xgetbv_calls)
                viol(st, "xgetbv_without_osxsave", "{" + cfg_json(feat, os) + "}");
            for (size_t i = 0; i < NARCH; ++i)
            {
                st.evals++;
                bool truth = ((feat & rows[i].need) == rows[i].need) && os_ok(rows[i].rf, os);
                if (rep[i] && !truth)
                {
                    const char* cls = !os.osxsave ? "osxsave_clear" : (rows[i].rf == YMM && !(os.xcr0 >> 2 & 1) && std::string(rows[i].name) == "fma3<sse4_2>") ? "fma3_sse_ymm_state_disabled"
                                                                                                                                                                      : "unclassified";
                    viol(st, cls, "{\"architecture\":\"" + std::string(rows[i].name) + "\"," + cfg_json(feat, os) + ",\"reported_available\":true,\"cpu_advertises\":" + (((feat & rows[i].need) == rows[i].need) ? "true" : "false") + ",\"os_state_enabled\":" + (os_ok(rows[i].rf, os) ? "true" : "false") + "}");
                }
            }
            st.cell((unsigned)((&os - OSSTATES) << 18 | (feat >> 3)));
            if (st.samples.size() < 3 && (feat % 699053u) == 1)
            {
                std::string avail;
                for (size_t i = 0; i < NARCH; ++i)
                    if (rep[i])
                        avail += std::string(avail.empty() ? "\"" : ",\"") + rows[i].name + "\"";
                st.samples.push_back("{" + cfg_json(feat, os) + ",\"reported\":[" + avail + "]}");
            }
            // monotone along the extension chain on CPUs whose feature bits are closed under it
            if (sm.on)
            {
                bool closed = true;
                for (size_t i = 0; i < NARCH && closed; ++i)
                    if ((feat & rows[i].need) == rows[i].need)
                        for (size_t j = 0; j < NARCH; ++j)
                            if (derives[i][j] && (feat & rows[j].need) != rows[j].need)
                            {
                                closed = false;
                                break;
                            }
                if (closed)
                {
                    sm.evals++;
                    sm.cell((unsigned)((&os - OSSTATES) << 18 | (feat >> 3)));
                    for (size_t i = 0; i < NARCH; ++i)
                        if (rep[i])
                            for (size_t j = 0; j < NARCH; ++j)
                                if (derives[i][j] && !rep[j])
                                    viol(sm, "unclassified", "{\"architecture\":\"" + std::string(rows[i].name) + "\",\"parent_not_available\":\"" + rows[j].name + "\"," + cfg_json(feat, os) + "}");
                }
            }
        }
    }
    info("configurations_enumerated", std::to_string(nconf));
    xsimd::verif::cpuid_source() = nullptr;
    xsimd::verif::bypass_cache() = false;
}

// ------------------------------------------------------------------ dispatch
template <class A, class L>
struct index_in;
template <class A, class... As>
struct index_in<A, xs::arch_list<A, As...>> : std::integral_constant<int, 0>
{
};
template <class A, class B, class... As>
struct index_in<A, xs::arch_list<B, As...>> : std::integral_constant<int, 1 + index_in<A, xs::arch_list<As...>>::value>
{
};

// A copyable and movable argument that counts how it travelled: an rvalue argument of dispatch must reach the
// functor by moves only, an lvalue argument by (at least) one copy with the source left intact.  (A move-only type
// would turn a forwarding defect into a compile error of this unit, i.e. an inconclusive run instead of a witness.)
struct Probe
{
    int v;
    int* copies;
    int* moves;
    bool moved_from = false;
    Probe(int x, int* c, int* m)
        : v(x), copies(c), moves(m)
    {
    }
    Probe(const Probe& o)
        : v(o.v), copies(o.copies), moves(o.moves)
    {
        ++*copies;
    }
    Probe(Probe&& o) noexcept
        : v(o.v), copies(o.copies), moves(o.moves)
    {
        ++*moves;
        o.moved_from = true;
        o.v = -1;
    }
};

struct Recorder
{
    int* calls;
    int* which; // index in all_x86_architectures of the tag received
    template <class A>
    long operator()(A, int& lv, Probe mv, Probe keep, const std::string& s, double d) const
    {
        ++*calls;
        *which = index_in<A, X86>::value;
        lv += 7;                     // lvalue reference reaches the caller's object
        return 100000 + mv.v * 100 + (keep.v - 17) + (long)s.size() * 10 + (long)d + index_in<A, X86>::value * 1000000L;
    }
};

template <class... As>
static void run_list(xs::arch_list<As...>, OpStat& st, Rng& rng, const char* lname, long nconf)
{
    using L = xs::arch_list<As...>;
    const int members[] = { index_in<As, X86>::value... };
    ArchRow rows[NARCH];
    rows_of(X86 {}, rows);
    bool rep[NARCH];
    for (long k = 0; k < nconf; ++k)
    {
        uint64_t r = rng.next();
        uint32_t feat = (uint32_t)(r & ((1u << 21) - 1));
        if (r >> 40 & 1) // closed-ish realistic CPUs: everything up to a random level
            feat |= (uint32_t)((1u << (r >> 44) % 21) - 1);
        const OsState& os = OSSTATES[(r >> 32) % 5];
        set_os(os);
        set_features(feat);
        g_cpu.noise = (r >> 41 & 1) ? (r | 2) : 0;
        xs::detail::supported_arch sa = xs::available_architectures();
        report_of(X86 {}, sa, rep);
        int expect = -1;
        for (size_t i = 0; i < sizeof...(As); ++i)
            if (rep[members[i]])
            {
                expect = members[i];
                break;
            }
        if (expect < 0)
            continue; // no member available: the property is silent (the library asserts)
        int calls = 0, which = -1, lv = 5;
        int rv_copies = 0, rv_moves = 0, lv_copies = 0, lv_moves = 0;
        Probe mv(42, &rv_copies, &rv_moves), keep(17, &lv_copies, &lv_moves);
        mark_case("dispatch", lname, &g_cpu, sizeof g_cpu);
        auto d = xs::dispatch<L>(Recorder { &calls, &which });
        long ret = d(lv, std::move(mv), keep, std::string("abc"), 2.0);
        st.evals++;
        st.cell((unsigned)((strhash(lname) & 0x3ff) << 10 | (feat & 0x3ff)));
        long want = 100000 + 42 * 100 + 3 * 10 + 2 + expect * 1000000L;
        // rvalue: moved all the way (no copy); lvalue: copied, never moved from
        const bool fwd_ok = rv_copies == 0 && rv_moves >= 1 && mv.moved_from && lv_moves == 0 && lv_copies >= 1 && !keep.moved_from && keep.v == 17;
        if (calls != 1 || which != expect || ret != want || lv != 12 || !fwd_ok)
            viol(st, "unclassified", "{\"list\":\"" + std::string(lname) + "\"," + cfg_json(feat, os) + ",\"calls\":" + std::to_string(calls) + ",\"invoked\":\"" + (which >= 0 ? rows[which].name : "none") + "\",\"first_available\":\"" + rows[expect].name + "\",\"returned\":" + std::to_string(ret) + ",\"expected_return\":" + std::to_string(want) + ",\"lvalue_after\":" + std::to_string(lv) + ",\"rvalue_arg_copies\":" + std::to_string(rv_copies) + ",\"rvalue_arg_moves\":" + std::to_string(rv_moves) + ",\"lvalue_arg_copies\":" + std::to_string(lv_copies) + ",\"lvalue_arg_moved_from\":" + (keep.moved_from ? "true" : "false") + "}");
        if (st.samples.size() < 3)
            st.samples.push_back("{\"list\":\"" + std::string(lname) + "\"," + cfg_json(feat, os) + ",\"invoked\":\"" + (which >= 0 ? rows[which].name : "none") + "\"}");
    }
}

// list builders
template <size_t N, class L, class Acc = xs::arch_list<>, bool Z = (N == 0)>
struct take;
template <size_t N, class L, class... Bs>
struct take<N, L, xs::arch_list<Bs...>, true>
{
    using type = xs::arch_list<Bs...>;
};
template <size_t N, class A, class... As, class... Bs>
struct take<N, xs::arch_list<A, As...>, xs::arch_list<Bs...>, false> : take<N - 1, xs::arch_list<As...>, xs::arch_list<Bs..., A>>
{
};
template <size_t N, class L, bool Z = (N == 0)>
struct drop;
template <size_t N, class L>
struct drop<N, L, true>
{
    using type = L;
};
template <size_t N, class A, class... As>
struct drop<N, xs::arch_list<A, As...>, false> : drop<N - 1, xs::arch_list<As...>>
{
};
constexpr uint64_t cmix(uint64_t z)
{
    z = (z ^ (z >> 30)) * 0xbf58476d1ce4e5b9ull;
    z = (z ^ (z >> 27)) * 0x94d049bb133111ebull;
    return z ^ (z >> 31);
}
template <uint64_t Mask, size_t I, class L, class Acc = xs::arch_list<>>
struct pick;
template <uint64_t Mask, size_t I, class... Bs>
struct pick<Mask, I, xs::arch_list<>, xs::arch_list<Bs...>>
{
    using type = xs::arch_list<Bs...>;
};
template <uint64_t Mask, size_t I, class A, class... As, class... Bs>
struct pick<Mask, I, xs::arch_list<A, As...>, xs::arch_list<Bs...>>
    : pick<Mask, I + 1, xs::arch_list<As...>, typename std::conditional<(Mask >> I & 1) != 0, xs::arch_list<Bs..., A>, xs::arch_list<Bs...>>::type>
{
};
template <class L>
struct nonempty : std::true_type
{
};
template <>
struct nonempty<xs::arch_list<>> : std::false_type
{
};

template <size_t... Is>
static void prefix_suffix_lists(OpStat& st, Rng& rng, long n, std::index_sequence<Is...>)
{
    (run_list(typename take<Is + 1, X86>::type {}, st, rng, "prefix", n), ...);
    (run_list(typename drop<Is, X86>::type {}, st, rng, "suffix", n), ...);
    (run_list(typename take<1, typename drop<Is, X86>::type>::type {}, st, rng, "singleton", n), ...);
}
template <size_t... Is>
static void pair_lists(OpStat& st, Rng& rng, long n, std::index_sequence<Is...>)
{
    (run_list(typename take<2, typename drop<Is, X86>::type>::type {}, st, rng, "adjacent_pair", n), ...);
}
template <uint64_t M>
static void random_list(OpStat& st, Rng& rng, long n)
{
    using L = typename pick<(cmix(M) | 1) & ((1ull << NARCH) - 1), 0, X86>::type;
    if constexpr (nonempty<L>::value)
        run_list(L {}, st, rng, "random_sublist", n);
}
template <uint64_t... Ms>
static void random_lists(OpStat& st, Rng& rng, long n, std::integer_sequence<uint64_t, Ms...>)
{
    (random_list<Ms + 1>(st, rng, n), ...);
}

static void dispatching(uint64_t seed)
{
    static OpStat& st = reg("C15", "dispatch_first_available_once", "x86");
    static OpStat& so = reg("C15", "default_list_order", "x86");
    Rng rng(mix(seed, 1515));
    if (st.on)
    {
        xsimd::verif::cpuid_source() = &g_src;
        xsimd::verif::bypass_cache() = true;
        long n = budget(400, 10000);
        run_list(X86 {}, st, rng, "all_x86_architectures", n * 10);
        run_list(xs::supported_architectures {}, st, rng, "supported_architectures(default)", n * 10);
        prefix_suffix_lists(st, rng, n, std::make_index_sequence<NARCH> {});
        pair_lists(st, rng, n, std::make_index_sequence<NARCH - 1> {});
        random_lists(st, rng, n, std::make_integer_sequence<uint64_t, 32> {});
        xsimd::verif::cpuid_source() = nullptr;
        xsimd::verif::bypass_cache() = false;
    }
    if (so.on)
    {
        so.evals += 2;
        so.cell(1);
        if (!std::is_same<xs::best_arch, xs::supported_architectures::best>::value)
            viol(so, "unclassified", "{\"relation\":\"best_arch heads supported_architectures\"}");
        if (!std::is_same<xs::default_arch, xs::best_arch>::value)
            viol(so, "unclassified", "{\"relation\":\"default_arch == best_arch (no XSIMD_DEFAULT_ARCH override in this build)\"}");
        // best-first: no later member derives from an earlier one
        static bool derives[NARCH][NARCH];
        derive_matrix(X86 {}, derives);
        ArchRow rows[NARCH];
        rows_of(X86 {}, rows);
        for (size_t i = 0; i < NARCH; ++i)
            for (size_t j = i + 1; j < NARCH; ++j)
            {
                so.evals++;
                so.cell((unsigned)(i * 32 + j));
                if (derives[j][i])
                    viol(so, "unclassified", "{\"earlier\":\"" + std::string(rows[i].name) + "\",\"later_extension\":\"" + rows[j].name + "\"}");
            }
    }
}

// real (un-hooked) detection on this machine against the kernel's view
static void real_machine()
{
    static OpStat& st = reg("C15", "real_detection_vs_proc_cpuinfo", "x86");
    if (!st.on)
        return;
    std::ifstream f("/proc/cpuinfo");
    std::string line, flags;
    while (std::getline(f, line))
        if (line.compare(0, 5, "flags") == 0)
        {
            flags = " " + line.substr(line.find(':') + 1) + " ";
            break;
        }
    if (flags.empty())
    {
        note_na("C15", "real_detection_vs_proc_cpuinfo", "x86", "/proc/cpuinfo has no flags line");
        return;
    }
    auto has = [&](const char* fl) { return flags.find(std::string(" ") + fl + " ") != std::string::npos; };
    struct M
    {
        const char* arch;
        bool reported;
        std::vector<const char*> fl;
    };
    xs::detail::supported_arch sa = xs::available_architectures();
    std::vector<M> ms = {
        { "sse2", sa.has(xs::sse2 {}), { "sse2" } }, { "sse3", sa.has(xs::sse3 {}), { "pni" } }, { "ssse3", sa.has(xs::ssse3 {}), { "ssse3" } },
        { "sse4_1", sa.has(xs::sse4_1 {}), { "sse4_1" } }, { "sse4_2", sa.has(xs::sse4_2 {}), { "sse4_2" } }, { "fma3<sse4_2>", sa.has(xs::fma3<xs::sse4_2> {}), { "fma" } },
        { "avx", sa.has(xs::avx {}), { "avx" } }, { "fma3<avx>", sa.has(xs::fma3<xs::avx> {}), { "fma", "avx" } }, { "avx2", sa.has(xs::avx2 {}), { "avx2" } },
        { "fma3<avx2>", sa.has(xs::fma3<xs::avx2> {}), { "fma", "avx2" } }, { "avxvnni", sa.has(xs::avxvnni {}), { "avx_vnni" } }, { "fma4", sa.has(xs::fma4 {}), { "fma4" } },
        { "avx512f", sa.has(xs::avx512f {}), { "avx512f" } }, { "avx512cd", sa.has(xs::avx512cd {}), { "avx512cd" } }, { "avx512dq", sa.has(xs::avx512dq {}), { "avx512dq" } },
        { "avx512bw", sa.has(xs::avx512bw {}), { "avx512bw" } }, { "avx512er", sa.has(xs::avx512er {}), { "avx512er" } }, { "avx512pf", sa.has(xs::avx512pf {}), { "avx512pf" } },
        { "avx512ifma", sa.has(xs::avx512ifma {}), { "avx512ifma" } }, { "avx512vbmi", sa.has(xs::avx512vbmi {}), { "avx512vbmi" } }, { "avx512vbmi2", sa.has(xs::avx512vbmi2 {}), { "avx512_vbmi2" } },
        { "avx512vnni<avx512bw>", sa.has(xs::avx512vnni<xs::avx512bw> {}), { "avx512_vnni" } }, { "avx512vnni<avx512vbmi2>", sa.has(xs::avx512vnni<xs::avx512vbmi2> {}), { "avx512_vnni", "avx512_vbmi2" } },
    };
    for (auto& m : ms)
    {
        st.evals++;
        st.cell((unsigned)(strhash(m.arch) & 0xffff));
        bool kernel = true;
        for (const char* fl : m.fl)
            kernel = kernel && has(fl);
        if (m.reported && !kernel)
            viol(st, "unclassified", "{\"architecture\":\"" + std::string(m.arch) + "\",\"reported_available\":true,\"proc_cpuinfo_has_flags\":false}");
        if (st.samples.size() < 4)
            st.samples.push_back("{\"architecture\":\"" + std::string(m.arch) + "\",\"reported\":" + (m.reported ? "true" : "false") + ",\"proc_cpuinfo\":" + (kernel ? "true" : "false") + "}");
    }
}

void vh::unit_main()
{
    real_machine();
    detection(ctx().seed);
    dispatching(ctx().seed);
}
VH_MAIN()
