// C20 architecture descriptions and batch geometry.  No inputs to vary: the unit evaluates every
// relation of the property at run time for the architecture under test, every element-type
// spelling, every lane count 1..128 of make_sized_batch, and the architecture lists of this build.
#include "../common/vcheck.hpp"
#include <complex>
#include <typeinfo>
using namespace vh;

static OpStat* g_st;
static void rel(bool ok, const char* relation, const std::string& subject)
{
    g_st->evals++;
    g_st->cell((unsigned)(mix(strhash(relation), strhash(subject.c_str())) & 0x3fffff));
    if (!ok)
        viol(*g_st, "unclassified", "{\"relation\":\"" + std::string(relation) + "\",\"subject\":\"" + subject + "\"}");
    if (g_st->samples.size() < 6)
        g_st->samples.push_back("{\"relation\":\"" + std::string(relation) + "\",\"subject\":\"" + subject + "\",\"holds\":" + (ok ? "true" : "false") + "}");
}

// register width in bytes, written down from the ISA definitions (independent of every sizeof in the library):
// SSE family 16, AVX family 32, AVX-512 family 64, emulated<N> N/8
template <class A>
struct width_of
{
    static constexpr size_t value = std::is_base_of<xs::avx512f, A>::value ? 64 : std::is_base_of<xs::avx, A>::value ? 32
        : std::is_base_of<xs::sse2, A>::value                                                                         ? 16
                                                                                                                      : 0;
};
#if XSIMD_WITH_EMULATED
template <size_t N>
struct width_of<xs::emulated<N>>
{
    static constexpr size_t value = N / 8;
};
#endif

template <class A, class T>
static void per_type(const char* t)
{
    using B = xs::batch<T, A>;
    using BB = xs::batch_bool<T, A>;
    std::string s = std::string(A::name()) + "/" + t;
    rel(width_of<A>::value != 0 && B::size * sizeof(T) == width_of<A>::value, "size*sizeof(T) == architectural register width (16/32/64 bytes, emulated<N>: N/8)", s);
    rel(std::is_same<typename B::register_type, typename xs::types::simd_register<T, A>::register_type>::value, "batch::register_type is the architecture's register for T", s);
    rel(!xs::is_batch_complex<B>::value && !xs::is_batch<BB>::value, "is_batch_complex / is_batch are false for real batches / masks", s);
    rel(std::is_same<xs::scalar_type_t<B>, T>::value && std::is_same<xs::scalar_type_t<T>, T>::value, "scalar_type_t of a batch and of a scalar", s);
    rel(std::is_same<xs::mask_type_t<B>, BB>::value && std::is_same<xs::mask_type_t<T>, bool>::value, "mask_type_t of a batch and of a scalar", s);
    rel(std::is_same<xs::as_logical_t<B>, BB>::value, "as_logical_t<batch> is its batch_bool", s);
    rel(std::is_same<xs::as_integer_t<B>, xs::batch<xs::as_integer_t<T>, A>>::value, "as_integer_t<batch> keeps architecture and lane count", s);
    rel(std::is_same<xs::as_unsigned_integer_t<B>, xs::batch<xs::as_unsigned_integer_t<T>, A>>::value, "as_unsigned_integer_t<batch> keeps architecture and lane count", s);
    rel(xs::has_simd_register<T, A>::value, "has_simd_register<T, A>", s);
    rel(BB::size * sizeof(T) == width_of<A>::value, "batch_bool lane count * sizeof(T) == register width", s);
    if constexpr (std::is_integral<T>::value)
    {
        rel(sizeof(xs::as_signed_integer_t<T>) == sizeof(T) && std::is_signed<xs::as_signed_integer_t<T>>::value, "as_signed_integer_t: signed integer of the same width", s);
        if constexpr (std::is_same<T, int32_t>::value || std::is_same<T, int64_t>::value) // the two specialisations the library defines
            rel(std::is_same<xs::as_float_t<B>, xs::batch<xs::as_float_t<T>, A>>::value && sizeof(xs::as_float_t<T>) == sizeof(T) && std::is_floating_point<xs::as_float_t<T>>::value && xs::batch<xs::as_float_t<T>, A>::size == B::size, "as_float_t: floating type of the same width and lane count", s);
    }
    if constexpr (std::is_same<A, xs::default_arch>::value)
    {
        // the single-argument traits are defined on the default architecture
        rel(std::is_same<xs::simd_type<T>, xs::batch<T>>::value && xs::simd_traits<T>::size == xs::batch<T>::size, "simd_traits<T>: type and size of the default batch", s);
        rel(std::is_same<xs::simd_bool_type<T>, xs::batch_bool<T>>::value, "simd_traits<T>::bool_type", s);
        rel(std::is_same<xs::revert_simd_type<xs::batch<T>>, T>::value && xs::revert_simd_traits<xs::batch<T>>::size == xs::batch<T>::size, "revert_simd_traits<batch<T>>", s);
        rel(std::is_same<xs::revert_simd_type<T>, T>::value && xs::revert_simd_traits<T>::size == xs::batch<T>::size, "revert_simd_traits<T>", s);
    }
    rel(B::size * sizeof(T) == sizeof(typename xs::types::simd_register<T, A>::register_type) || sizeof(T) * B::size == sizeof(B), "size*sizeof(T) == register width", s);
    rel(B::size * sizeof(T) == sizeof(B), "batch occupies exactly size*sizeof(T) bytes", s);
    rel(BB::size == B::size, "batch_bool lane count == batch lane count", s);
    rel(std::is_same<typename B::value_type, T>::value, "value_type", s);
    rel(std::is_same<typename BB::batch_type, B>::value, "batch_bool::batch_type", s);
    rel(xs::is_batch<B>::value && !xs::is_batch<T>::value, "is_batch", s);
    rel(xs::is_batch_bool<BB>::value && !xs::is_batch_bool<B>::value, "is_batch_bool", s);
    rel(std::is_same<typename xs::scalar_type<B>::type, T>::value, "scalar_type", s);
    rel(std::is_same<typename xs::mask_type<B>::type, BB>::value, "mask_type", s);
    rel(sizeof(xs::as_integer_t<T>) == sizeof(T) && std::is_integral<xs::as_integer_t<T>>::value && std::is_signed<xs::as_integer_t<T>>::value, "as_integer_t: signed integer of the same width", s);
    rel(sizeof(xs::as_unsigned_integer_t<T>) == sizeof(T) && std::is_unsigned<xs::as_unsigned_integer_t<T>>::value, "as_unsigned_integer_t: unsigned integer of the same width", s);
    rel(xs::batch<xs::as_integer_t<T>, A>::size == B::size, "as_integer batch has the same lane count", s);
    rel(alignof(B) <= A::alignment(), "alignof(batch) <= A::alignment()", s);
    rel(std::is_same<xs::simd_return_type<T, T, A>, B>::value, "simd_return_type<T,T>", s);
    rel(std::is_same<xs::simd_return_type<bool, T, A>, BB>::value, "simd_return_type<bool,T>", s);
    rel(std::is_same<typename xs::simd_return_type<T, T, A>::arch_type, A>::value && std::is_same<typename xs::simd_return_type<bool, T, A>::arch_type, A>::value, "simd_return_type keeps the architecture", s);
    rel(std::is_same<typename B::arch_type, A>::value && std::is_same<typename BB::arch_type, A>::value, "batch::arch_type", s);
    rel(std::is_same<typename B::batch_bool_type, BB>::value, "batch::batch_bool_type", s);
    // an aligned load/store at exactly A::alignment() (not a larger power of two) must be legal
    {
        alignas(128) unsigned char buf[512];
        unsigned char* p = buf + 128 + A::alignment(); // multiple of alignment(); odd multiple when alignment() < 128
        for (size_t i = 0; i < sizeof(B); ++i)
            p[i] = (unsigned char)(i * 7 + 1);
        mark_case("aligned_load_at_alignment", t, p, sizeof(B));
        B b = B::load_aligned(reinterpret_cast<const T*>(p));
        alignas(128) unsigned char out[256 + 128];
        b.store_aligned(reinterpret_cast<T*>(out + A::alignment()));
        rel(memcmp(out + A::alignment(), p, sizeof(B)) == 0 && xs::is_aligned<A>(p), "aligned load/store legal at A::alignment()", s);
    }
}
template <class A, class T>
static void per_float_type(const char* t)
{
    std::string s = std::string(A::name()) + "/" + t;
    using B = xs::batch<T, A>;
    using BC = xs::batch<std::complex<T>, A>;
    rel(BC::size == B::size, "complex batch lane count == real batch lane count", s);
    rel(sizeof(BC) == 2 * sizeof(B), "complex batch = two real registers", s);
    rel(std::is_same<typename BC::real_batch, B>::value, "complex real_batch", s);
    rel(std::is_same<typename BC::batch_bool_type, xs::batch_bool<T, A>>::value, "complex mask type", s);
    rel(sizeof(xs::as_float_t<xs::as_integer_t<T>>) == sizeof(T) && std::is_floating_point<xs::as_float_t<xs::as_integer_t<T>>>::value, "as_float_t: floating type of the same width", s);
    rel(std::is_same<xs::simd_return_type<std::complex<T>, std::complex<T>, A>, BC>::value, "simd_return_type<complex,complex>", s);
    rel(std::is_same<xs::simd_return_type<std::complex<T>, T, A>, BC>::value, "simd_return_type<complex,real>", s);
    rel(std::is_same<xs::simd_return_type<bool, std::complex<T>, A>, xs::batch_bool<T, A>>::value, "simd_return_type<bool,complex> is the mask of the same architecture", s);
    rel(xs::simd_return_type<bool, std::complex<T>, A>::size == BC::size, "simd_return_type<bool,complex> lane count", s);
    rel(std::is_same<typename BC::arch_type, A>::value, "complex batch arch_type", s);
    rel(xs::is_batch_complex<BC>::value && xs::is_batch<BC>::value && !xs::is_batch_bool<BC>::value, "is_batch_complex / is_batch for a complex batch", s);
    rel(std::is_same<typename BC::value_type, std::complex<T>>::value && std::is_same<xs::scalar_type_t<BC>, std::complex<T>>::value, "complex batch value_type / scalar_type_t", s);
    rel(std::is_same<xs::mask_type_t<BC>, xs::batch_bool<T, A>>::value, "mask_type_t of a complex batch", s);
    rel(BC::size * sizeof(T) == width_of<A>::value, "complex lane count * sizeof(T) == register width", s);
    rel(xs::has_simd_register<std::complex<T>, A>::value, "has_simd_register<complex<T>, A>", s);
    {
        // converting return types: integer of the same width <-> floating
        using I = xs::as_integer_t<T>;
        rel(std::is_same<xs::simd_return_type<I, T, A>, B>::value, "simd_return_type<integer of the same width, T>", s);
        rel(std::is_same<xs::simd_return_type<T, I, A>, xs::batch<I, A>>::value, "simd_return_type<T, integer of the same width>", s);
    }
    if constexpr (std::is_same<A, xs::default_arch>::value)
    {
        rel(std::is_same<xs::simd_type<std::complex<T>>, xs::batch<std::complex<T>>>::value && xs::simd_traits<std::complex<T>>::size == xs::batch<T>::size, "simd_traits<complex<T>>", s);
    }
}

template <class A>
static void per_arch()
{
    size_t al = A::alignment();
    std::string s = A::name();
    rel(al && !(al & (al - 1)), "alignment is a power of two", s);
    rel(!A::requires_alignment() || al >= sizeof(xs::batch<float, A>), "alignment >= register bytes when alignment is required", s);
    rel(A::supported(), "architecture is supported by this build", s);
    rel(A::name() != nullptr && A::name()[0] != 0, "architecture has a name", s);
#define PT(T) per_type<A, T>(#T);
    PT(int8_t)
    PT(uint8_t)
    PT(int16_t)
    PT(uint16_t)
    PT(int32_t)
    PT(uint32_t)
    PT(int64_t)
    PT(uint64_t)
    PT(float)
    PT(double)
    PT(char)
    PT(signed char)
    PT(unsigned char)
    PT(short)
    PT(unsigned short)
    PT(int)
    PT(unsigned int)
    PT(long)
    PT(unsigned long)
    PT(long long)
    PT(unsigned long long)
#undef PT
    per_float_type<A, float>("float");
    per_float_type<A, double>("double");
}

// best-first list: no architecture appearing later may derive from (be an extension of) an earlier one,
// i.e. every architecture's extension parent appears after it
template <class... As>
struct ord;
template <>
struct ord<>
{
    static void run(const char*) { }
};
template <class A0, class... As>
struct ord<A0, As...>
{
    static void run(const char* list)
    {
        const bool later_is_child[] = { (std::is_base_of<A0, As>::value && !std::is_same<A0, As>::value)..., false };
        const char* later_name[] = { As::name()..., "" };
        for (size_t i = 0; i < sizeof...(As); ++i)
            rel(!later_is_child[i], "no later list member derives from an earlier one", std::string(list) + ":" + A0::name() + " before " + later_name[i]);
        ord<As...>::run(list);
    }
};
template <class... As>
static void order(xs::arch_list<As...>, const char* list)
{
    ord<As...>::run(list);
    size_t mx = 0;
    const size_t als[] = { As::alignment()..., 0 };
    for (size_t a : als)
        if (a > mx)
            mx = a;
    rel(xs::arch_list<As...>::alignment() == mx, "arch_list::alignment() is the maximum member alignment", list);
    rel(std::is_same<typename xs::arch_list<As...>::best, typename std::tuple_element<0, std::tuple<As...>>::type>::value, "arch_list::best is the head", list);
}

// list operations: contains, for_each (each member once, in order), add, extend
template <class... As>
static void list_ops(xs::arch_list<As...>, const char* name)
{
    using L = xs::arch_list<As...>;
    const bool has[] = { L::template contains<As>()..., true };
    bool all = true;
    for (bool h : has)
        all = all && h;
    rel(all, "arch_list::contains is true for every member", name);
    struct not_an_arch : xs::generic
    {
    };
    rel(!L::template contains<not_an_arch>(), "arch_list::contains is false for a non-member", name);
    std::vector<std::string> seen;
    L::for_each([&](auto a) { seen.push_back(decltype(a)::name()); });
    const char* names[] = { As::name()..., "" };
    bool same = seen.size() == sizeof...(As);
    for (size_t i = 0; same && i < seen.size(); ++i)
        same = seen[i] == names[i];
    rel(same, "arch_list::for_each visits every member exactly once, in list order", name);
    rel(std::is_same<typename L::template add<not_an_arch>, xs::arch_list<As..., not_an_arch>>::value, "arch_list::add appends", name);
    rel(std::is_same<typename L::template extend<not_an_arch, xs::generic>, xs::arch_list<As..., not_an_arch, xs::generic>>::value, "arch_list::extend appends in order", name);
}
// supported_architectures is all_architectures filtered by supported(), order preserved
template <class... Ss, class... As>
static void is_filtered(xs::arch_list<Ss...>, xs::arch_list<As...>)
{
    std::vector<std::string> want, got;
    const char* an[] = { As::name()..., "" };
    const bool as[] = { As::supported()..., false };
    for (size_t i = 0; i < sizeof...(As); ++i)
        if (as[i])
            want.push_back(an[i]);
    const char* sn[] = { Ss::name()..., "" };
    for (size_t i = 0; i < sizeof...(Ss); ++i)
        got.push_back(sn[i]);
    rel(want == got, "supported_architectures == all_architectures filtered by supported(), same order", VARCH_NAME);
}

// arch_list::alignment() must be the maximum for ANY list, not only best-first ones
template <class... As>
static void list_alignment(xs::arch_list<As...>, const char* name)
{
    size_t mx = 0;
    const size_t als[] = { As::alignment()..., 0 };
    for (size_t a : als)
        if (a > mx)
            mx = a;
    rel(xs::arch_list<As...>::alignment() == mx, "arch_list::alignment() is the maximum member alignment", name);
    rel(std::is_same<typename xs::arch_list<As...>::best, typename std::tuple_element<0, std::tuple<As...>>::type>::value, "arch_list::best is the head", name);
}
static void arbitrary_lists()
{
    list_alignment(xs::arch_list<xs::avx2, xs::sse2, xs::avx512f> {}, "avx2,sse2,avx512f");
    list_alignment(xs::arch_list<xs::sse2, xs::avx512f, xs::avx2> {}, "sse2,avx512f,avx2");
    list_alignment(xs::arch_list<xs::sse2, xs::avx, xs::avx512bw> {}, "sse2,avx,avx512bw");
    list_alignment(xs::arch_list<xs::avx512f, xs::avx, xs::sse2> {}, "avx512f,avx,sse2");
    list_alignment(xs::arch_list<xs::sse4_2, xs::generic, xs::avx2> {}, "sse4_2,generic,avx2");
    list_alignment(xs::arch_list<xs::avx, xs::sse3, xs::avx2, xs::sse2, xs::avx512dq, xs::ssse3> {}, "avx,sse3,avx2,sse2,avx512dq,ssse3");
    list_alignment(xs::arch_list<xs::generic, xs::sse2> {}, "generic,sse2");
    list_alignment(xs::arch_list<xs::sse2, xs::generic> {}, "sse2,generic");
    list_alignment(xs::arch_list<xs::fma3<xs::avx2>, xs::avx512vnni<xs::avx512bw>, xs::sse4_1> {}, "fma3<avx2>,avx512vnni<avx512bw>,sse4_1");
    list_alignment(xs::arch_list<xs::sse2> {}, "sse2");
    list_alignment(xs::arch_list<xs::avx512vbmi2> {}, "avx512vbmi2");
}

template <class T>
struct scalar_of
{
    using type = T;
};
template <class T>
struct scalar_of<std::complex<T>>
{
    using type = T;
};
template <class T, size_t N>
static void sized(const char* t)
{
    using R = xs::make_sized_batch_t<T, N>;
    std::string s = std::string(VARCH_NAME) + "/make_sized_batch<" + t + "," + std::to_string(N) + ">";
    if constexpr (!std::is_void<R>::value)
    {
        rel(R::size == N, "make_sized_batch has exactly N lanes", s);
        rel(std::is_same<typename R::value_type, T>::value, "make_sized_batch value type", s);
    }
    // independent walk over the supported architectures: void is the answer only when none of them has N lanes of T
    bool exists = false;
    std::string first;
    xs::supported_architectures::for_each([&](auto a)
                                          {
        using A = decltype(a);
        if constexpr (xs::has_simd_register<typename scalar_of<T>::type, A>::value)
            if (xs::batch<T, A>::size == N && !exists)
            {
                exists = true;
                first = A::name();
            } });
    rel(exists == !std::is_void<R>::value, "make_sized_batch is void exactly when no supported architecture has N lanes", s + (exists ? " (" + first + " has them)" : ""));
}
template <class T, size_t... Ns>
static void sized_all(const char* t, std::index_sequence<Ns...>)
{
    (sized<T, Ns + 1>(t), ...);
}

void vh::unit_main()
{
    static OpStat& st = reg("C20", "relations", "all");
    g_st = &st;
    if (!st.on)
        return;
    // every architecture this build supports, not only the best one: traits must honour a non-default architecture
    xs::supported_architectures::for_each([](auto a) { per_arch<decltype(a)>(); });
    // the architecture under test itself when the lists do not contain it (emulated<N> is in none of them)
    if (!xs::supported_architectures::contains<ARCH>())
        per_arch<ARCH>();
    arbitrary_lists();
    order(xs::supported_architectures {}, "supported_architectures");
    order(xs::all_x86_architectures {}, "all_x86_architectures");
    order(xs::all_architectures {}, "all_architectures");
    list_ops(xs::supported_architectures {}, "supported_architectures");
    list_ops(xs::all_x86_architectures {}, "all_x86_architectures");
    list_ops(xs::all_architectures {}, "all_architectures");
    list_ops(xs::arch_list<xs::sse2> {}, "sse2");
    list_ops(xs::arch_list<> {}, "empty list");
    is_filtered(xs::supported_architectures {}, xs::all_architectures {});
    rel(std::is_same<xs::arch_list<>::best, xs::unavailable>::value && xs::arch_list<>::alignment() == 0, "empty list: best is unavailable, alignment 0", "empty list");
    rel(std::is_same<xs::best_arch, xs::supported_architectures::best>::value, "best_arch heads supported_architectures", VARCH_NAME);
    rel(xs::supported_architectures::contains<xs::default_arch>(), "default_arch is a supported architecture", VARCH_NAME);
    rel(xs::default_arch::alignment() <= xs::supported_architectures::alignment(), "default alignment <= list alignment", VARCH_NAME);
    sized_all<float>("float", std::make_index_sequence<128> {});
    sized_all<double>("double", std::make_index_sequence<128> {});
    sized_all<int8_t>("int8_t", std::make_index_sequence<128> {});
    sized_all<uint8_t>("uint8_t", std::make_index_sequence<128> {});
    sized_all<int16_t>("int16_t", std::make_index_sequence<128> {});
    sized_all<uint32_t>("uint32_t", std::make_index_sequence<128> {});
    sized_all<uint64_t>("uint64_t", std::make_index_sequence<128> {});
    sized_all<uint16_t>("uint16_t", std::make_index_sequence<128> {});
    sized_all<int32_t>("int32_t", std::make_index_sequence<128> {});
    sized_all<int64_t>("int64_t", std::make_index_sequence<128> {});
    sized_all<std::complex<float>>("complex<float>", std::make_index_sequence<64> {});
    sized_all<std::complex<double>>("complex<double>", std::make_index_sequence<64> {});
}
VH_MAIN()
