// C01 integer arithmetic (value oracle: 128-bit integer model) and the C13
// lane-independence monitor for the same operations (f(v)[k] == f(broadcast(v[k]))[0]).
#include "../common/vh.hpp"
using namespace vh;

typedef __int128 i128;
typedef unsigned __int128 u128;

template <class T>
static T wrap(u128 v)
{
    using U = typename std::make_unsigned<T>::type;
    U u = (U)v;
    T t;
    memcpy(&t, &u, sizeof t);
    return t;
}
template <class T>
static T clampT(i128 v)
{
    const i128 MIN = std::numeric_limits<T>::min(), MAX = std::numeric_limits<T>::max();
    return (T)(v < MIN ? MIN : (v > MAX ? MAX : v));
}

template <class T>
struct Ops
{
    static constexpr size_t N = xs::batch<T, ARCH>::size;
    alignas(64) T a[N], b[N], c[N];
    int ca[N], cb[N], cc[N];
};

template <class T>
static const char* classify(const char* op, T a, T b, T c)
{
    (void)c;
    (void)a;
    if (std::is_signed<T>::value && b == std::numeric_limits<T>::min() && strcmp(op, "ssub") == 0)
        return "rhs_is_MIN";
    return "unclassified";
}

// f: (B,B,B)->B ; ref: (i128,i128,i128)->T ; valid: (i128,i128,i128)->bool
template <class T, class F, class R, class V>
static void check(OpStat& st, OpStat& li, int arity, const Ops<T>& in, F f, R ref, V valid, long it)
{
    using B = xs::batch<T, ARCH>;
    constexpr size_t N = B::size;
    const bool do01 = st.on, do13 = li.on;
    if (!do01 && !do13)
        return;
    alignas(64) T o[N], o1[N];
    mark_case(st.op.c_str(), st.type.c_str(), &in, 3 * sizeof(in.a));
    B va = B::load_aligned(in.a), vb = B::load_aligned(in.b), vc = B::load_aligned(in.c);
    B r = f(va, vb, vc);
    r.store_aligned(o);
    if (do01)
    {
        for (size_t i = 0; i < N; ++i)
        {
            i128 x = in.a[i], y = in.b[i], z = in.c[i];
            if (!valid(x, y, z))
                continue;
            T e = ref(x, y, z);
            st.evals++;
            st.cell((i << 12) | (unsigned)in.ca[i] | (arity > 1 ? (unsigned)in.cb[i] << 4 : 0) | (arity > 2 ? (unsigned)in.cc[i] << 8 : 0));
            if (o[i] != e)
                viol(st, classify(st.op.c_str(), in.a[i], in.b[i], in.c[i]),
                     "{\"a\":\"" + hexv(in.a[i]) + "\",\"b\":\"" + hexv(in.b[i]) + "\",\"c\":\"" + hexv(in.c[i]) + "\",\"got\":\"" + hexv(o[i]) + "\",\"exp\":\"" + hexv(e) + "\",\"lane\":" + std::to_string(i) + "}");
        }
        if (st.want_sample())
            st.samples.push_back("{\"a\":" + hexarr(in.a, N) + ",\"b\":" + hexarr(in.b, N) + ",\"c\":" + hexarr(in.c, N) + ",\"got\":" + hexarr(o, N) + "}");
    }
    if (do13)
    {
        // one lane per batch (rotating): recompute with that lane's operands broadcast
        size_t k = (size_t)it % N;
        i128 x = in.a[k], y = in.b[k], z = in.c[k];
        if (valid(x, y, z))
        {
            B r1 = f(B(in.a[k]), B(in.b[k]), B(in.c[k]));
            r1.store_aligned(o1);
            li.evals++;
            li.cell((k << 12) | (unsigned)in.ca[k] | (arity > 1 ? (unsigned)in.cb[k] << 4 : 0) | (arity > 2 ? (unsigned)in.cc[k] << 8 : 0));
            bool bad = false;
            for (size_t i = 0; i < N; ++i)
                if (o1[i] != o1[0])
                    bad = true;
            if (bad || o1[0] != o[k])
                viol(li, "unclassified",
                     "{\"a\":\"" + hexv(in.a[k]) + "\",\"b\":\"" + hexv(in.b[k]) + "\",\"c\":\"" + hexv(in.c[k]) + "\",\"in_batch\":\"" + hexv(o[k]) + "\",\"broadcast\":" + hexarr(o1, N) + ",\"lane\":" + std::to_string(k) + ",\"companions_a\":" + hexarr(in.a, N) + "}");
            if (li.want_sample())
                li.samples.push_back("{\"lane\":" + std::to_string(k) + ",\"a\":" + hexarr(in.a, N) + ",\"in_batch\":\"" + hexv(o[k]) + "\",\"broadcast0\":\"" + hexv(o1[0]) + "\"}");
        }
    }
}

#define ST(prop, op) ([]() -> OpStat& { static OpStat& s = reg(prop, op, tname<T>()); return s; }())
#define CHK(op, arity, expr, refexpr, validexpr)                                                   \
    check<T>(                                                                                      \
        ST("C01", op), ST("C13", op), arity, in, [](B va, B vb, B vc) -> B { (void)va; (void)vb; (void)vc; return (expr); }, \
        [](i128 x, i128 y, i128 z) -> T { (void)x; (void)y; (void)z; const i128 MIN = std::numeric_limits<T>::min(), MAX = std::numeric_limits<T>::max(); (void)MIN; (void)MAX; return (refexpr); }, \
        [](i128 x, i128 y, i128 z) -> bool { (void)x; (void)y; (void)z; return (validexpr); }, it)

template <class T>
static void all_ops(const Ops<T>& in, long it)
{
    using B = xs::batch<T, ARCH>;
    constexpr bool S = std::is_signed<T>::value;
    CHK("add", 2, va + vb, wrap<T>((u128)x + (u128)y), true);
    CHK("sub", 2, va - vb, wrap<T>((u128)x - (u128)y), true);
    CHK("mul", 2, va * vb, wrap<T>((u128)x * (u128)y), true);
    CHK("neg", 1, -va, wrap<T>((u128)0 - (u128)x), true);
    CHK("abs", 1, xs::abs(va), wrap<T>(x < 0 ? (u128)0 - (u128)x : (u128)x), true);
    CHK("min", 2, xs::min(va, vb), (T)(x < y ? x : y), true);
    CHK("max", 2, xs::max(va, vb), (T)(x > y ? x : y), true);
    CHK("incr", 1, xs::incr(va), wrap<T>((u128)x + 1), true);
    CHK("decr", 1, xs::decr(va), wrap<T>((u128)x - 1), true);
    CHK("incr_if", 3, xs::incr_if(va, vb > vc), wrap<T>((u128)x + (y > z ? 1 : 0)), true);
    CHK("decr_if", 3, xs::decr_if(va, vb > vc), wrap<T>((u128)x - (y > z ? 1 : 0)), true);
    CHK("fma", 3, xs::fma(va, vb, vc), wrap<T>((u128)x * (u128)y + (u128)z), true);
    CHK("fms", 3, xs::fms(va, vb, vc), wrap<T>((u128)x * (u128)y - (u128)z), true);
    CHK("fnma", 3, xs::fnma(va, vb, vc), wrap<T>((u128)z - (u128)x * (u128)y), true);
    CHK("fnms", 3, xs::fnms(va, vb, vc), wrap<T>((u128)0 - (u128)x * (u128)y - (u128)z), true);
    CHK("sadd", 2, xs::sadd(va, vb), clampT<T>(x + y), true);
    CHK("ssub", 2, xs::ssub(va, vb), clampT<T>(x - y), true);
    CHK("sign", 1, xs::sign(va), wrap<T>(x < 0 ? (u128)-1 : (u128)(x > 0 ? 1 : 0)), true);
    // avg: floor for unsigned, round toward zero for signed; avgr: ceil, only claimed for a+b >= 0
    // the same operations through the other API forms a user may write: named functions, compound assignment,
    // increment / decrement operators, unary plus (each is its own op so that a defect of one form is keyed to it)
    CHK("xs_add", 2, xs::add(va, vb), wrap<T>((u128)x + (u128)y), true);
    CHK("xs_sub", 2, xs::sub(va, vb), wrap<T>((u128)x - (u128)y), true);
    CHK("xs_mul", 2, xs::mul(va, vb), wrap<T>((u128)x * (u128)y), true);
    CHK("xs_neg", 1, xs::neg(va), wrap<T>((u128)0 - (u128)x), true);
    CHK("add_assign", 2, (va += vb), wrap<T>((u128)x + (u128)y), true);
    CHK("sub_assign", 2, (va -= vb), wrap<T>((u128)x - (u128)y), true);
    CHK("mul_assign", 2, (va *= vb), wrap<T>((u128)x * (u128)y), true);
    CHK("preinc", 1, ++va, wrap<T>((u128)x + 1), true);
    CHK("predec", 1, --va, wrap<T>((u128)x - 1), true);
    CHK("postinc_result", 1, va++, wrap<T>((u128)x), true);
    CHK("postdec_result", 1, va--, wrap<T>((u128)x), true);
    CHK("postinc_effect", 1, (va++, va), wrap<T>((u128)x + 1), true);
    CHK("postdec_effect", 1, (va--, va), wrap<T>((u128)x - 1), true);
    CHK("unary_plus", 1, +va, wrap<T>((u128)x), true);
    {
        // batch (op) scalar and scalar (op) batch: the scalar is lane 0 of b, broadcast by the implicit conversion
        Ops<T> d = in;
        for (size_t i = 0; i < Ops<T>::N; ++i)
        {
            d.b[i] = in.b[0];
            d.cb[i] = in.cb[0];
        }
        const Ops<T>& in = d;
        CHK("add_scalar_rhs", 2, va + vb.get(0), wrap<T>((u128)x + (u128)y), true);
        CHK("sub_scalar_lhs", 2, vb.get(0) - va, wrap<T>((u128)y - (u128)x), true);
        CHK("mul_scalar_rhs", 2, va * vb.get(0), wrap<T>((u128)x * (u128)y), true);
        CHK("min_scalar", 2, xs::min(va, B(vb.get(0))), (T)(x < y ? x : y), true);
    }
    CHK("avg", 2, xs::avg(va, vb), (T)(S ? ((x + y) / 2) : ((x + y) >> 1)), true);
    CHK("avgr", 2, xs::avgr(va, vb), (T)((x + y + 1) >> 1), x + y >= 0);
    {
        // div/mod: divisor != 0 and not MIN / -1
        Ops<T> d = in;
        for (size_t i = 0; i < Ops<T>::N; ++i)
        {
            if (d.b[i] == 0)
            {
                d.b[i] = 1;
                d.cb[i] = 2;
            }
            if (S && d.a[i] == std::numeric_limits<T>::min() && d.b[i] == (T)-1)
            {
                d.b[i] = 1;
                d.cb[i] = 2;
            }
        }
        const Ops<T>& in = d;
        CHK("div", 2, va / vb, (T)(x / y), true);
        CHK("mod", 2, va % vb, (T)(x % y), true);
        CHK("xs_div", 2, xs::div(va, vb), (T)(x / y), true);
        CHK("xs_mod", 2, xs::mod(va, vb), (T)(x % y), true);
        CHK("div_assign", 2, (va /= vb), (T)(x / y), true);
        CHK("mod_assign", 2, (va %= vb), (T)(x % y), true);
    }
}

template <class T>
static void run_type(uint64_t seed)
{
    using B = xs::batch<T, ARCH>;
    constexpr size_t N = B::size;
    Rng rng(mix(seed, strhash(tname<T>())));
    Ops<T> in;
    long it = 0;
    // (1) hostile random batches: every lane draws independently from the lattice / random-bit generator
    long iters = budget(3000, 60000);
    for (long k = 0; k < iters; ++k, ++it)
    {
        for (size_t i = 0; i < N; ++i)
        {
            in.a[i] = hostile<T>(rng, in.ca[i]);
            in.b[i] = hostile<T>(rng, in.cb[i]);
            in.c[i] = hostile<T>(rng, in.cc[i]);
        }
        all_ops<T>(in, it);
    }
    // (2) witness-lane sweep: one distinguished pair in lane k, benign small values elsewhere
    for (size_t k = 0; k < N; ++k)
        for (int rep = 0; rep < 64; ++rep, ++it)
        {
            for (size_t i = 0; i < N; ++i)
            {
                in.a[i] = (T)(rng.below(7));
                in.b[i] = (T)(1 + rng.below(5));
                in.c[i] = (T)(rng.below(3));
                in.ca[i] = in.cb[i] = in.cc[i] = 9;
            }
            in.a[k] = hostile<T>(rng, in.ca[k]);
            in.b[k] = hostile<T>(rng, in.cb[k]);
            in.c[k] = hostile<T>(rng, in.cc[k]);
            all_ops<T>(in, (long)k);
        }
    // (3) exhaustive operand pairs: 8-bit always; 16-bit fully in the thorough tier, a 2^-6
    //     stratified sample (a stride chosen from the seed) in the quick tier
    if (sizeof(T) <= 2)
    {
        const uint64_t space = sizeof(T) == 1 ? (1ull << 16) : (1ull << 32);
        uint64_t stride = 1, start = 0;
        if (sizeof(T) == 2)
        {
            stride = sweep_stride(127); // odd: walks all residues of both operands
            start = seed % stride;
        }
        size_t fill = 0;
        for (uint64_t p = start; p < space; p += stride)
        {
            using U = typename std::make_unsigned<T>::type;
            U ua = (U)(p >> (8 * sizeof(T))), ub = (U)p;
            memcpy(&in.a[fill], &ua, sizeof(T));
            memcpy(&in.b[fill], &ub, sizeof(T));
            U uc = (U)(p * 0x9e37u + (p >> 7));
            memcpy(&in.c[fill], &uc, sizeof(T));
            in.ca[fill] = 14;
            in.cb[fill] = 14;
            in.cc[fill] = 14;
            if (++fill == N)
            {
                all_ops<T>(in, it++);
                fill = 0;
            }
        }
        info(std::string("exhaustive_pairs_") + tname<T>(), std::to_string((space - start + stride - 1) / stride));
    }
}

// ---------------------------------------------------------------- results consumed by scalar arithmetic in the same function
// The value monitors above read every result back from memory and compare bit patterns, so the optimiser never sees what
// is done with a lane.  A kernel that computes a lane with a *signed* scalar expression (x * y, x + y, -x on T) has undefined
// behaviour exactly where the property demands wrap-around, and g++ -O2 uses that when the consumer is visible:
// (x * 2) / 2 is simplified to x, (x + 1) < x to false.  Each probe is a small noinline function (operand from a volatile)
// whose lane is consumed by such an expression; the expected value is computed from the wrapped lane in unsigned arithmetic.
template <class T>
struct Vis
{
    using B = xs::batch<T, ARCH>;
    using U = typename std::make_unsigned<T>::type;
    static T wrap(U u)
    {
        T t;
        memcpy(&t, &u, sizeof t);
        return t;
    }
    __attribute__((noinline)) static T half_of_double(T x) { return (T)((B(x) * B((T)2)).get(0) / 2); }
    __attribute__((noinline)) static T half_of_fma(T x) { return (T)(xs::fma(B(x), B((T)2), B((T)0)).get(0) / 2); }
    __attribute__((noinline)) static T half_of_sum(T x) { return (T)((B(x) + B(x)).get(0) / 2); }
    __attribute__((noinline)) static int incr_is_smaller(T x) { return xs::incr(B(x)).get(B::size - 1) < x; }
    __attribute__((noinline)) static int decr_is_larger(T x) { return xs::decr(B(x)).get(0) > x; }
    __attribute__((noinline)) static int neg_is_negative(T x)
    {
        if (x >= 0)
            return -1;
        alignas(64) T o[B::size];
        (-B(x)).store_aligned(o);
        return o[B::size - 1] < 0;
    }
    __attribute__((noinline)) static int abs_is_negative(T x) { return xs::abs(B(x)).get(0) < 0; }
    __attribute__((noinline)) static int product_is_negative(T x)
    {
        if (x <= 0)
            return -1;
        alignas(64) T o[B::size];
        xs::mul(B(x), B((T)2)).store_aligned(o);
        return o[B::size - 1] < 0;
    }
    __attribute__((noinline)) static int diff_is_positive(T x) { return (B(x) - B((T)1)).get(0) > 0; }
    static void run()
    {
        const T top = std::numeric_limits<T>::max(), bot = std::numeric_limits<T>::min();
        const T quarter = (T)((U)1 << (8 * sizeof(T) - 2)); // 2^(bits-2): doubling wraps to MIN
        volatile T vq = quarter, vtop = top, vbot = bot;
        auto chk = [](const char* op, long long got, long long exp, T x)
        {
            static std::map<std::string, OpStat*> cache;
            OpStat*& sp = cache[std::string(op) + tname<T>()];
            if (!sp)
                sp = &reg("C01", op, tname<T>());
            OpStat& st = *sp;
            if (!st.on)
                return;
            st.evals++;
            st.cell(0);
            if (got != exp)
                viol(st, std::string(op) == "abs_consumer_visible" ? "abs_of_type_MIN" : "unclassified", "{\"x\":\"" + hexv(x) + "\",\"got\":" + std::to_string(got) + ",\"expected_from_the_wrapped_lane\":" + std::to_string(exp) + "}");
            else if (st.want_sample())
                st.samples.push_back("{\"x\":\"" + hexv(x) + "\",\"value\":" + std::to_string(got) + "}");
        };
        for (int rep = 0; rep < 4; ++rep)
        {
            T q = vq, t = vtop, b = vbot;
            mark_case("consumer_visible", tname<T>(), &q, sizeof q);
            chk("mul_consumer_visible", half_of_double(q), (long long)(T)(wrap((U)((U)q * 2u)) / 2), q);
            chk("fma_consumer_visible", half_of_fma(q), (long long)(T)(wrap((U)((U)q * 2u)) / 2), q);
            chk("add_consumer_visible", half_of_sum(q), (long long)(T)(wrap((U)((U)q + (U)q)) / 2), q);
            chk("incr_consumer_visible", incr_is_smaller(t), 1, t);
            chk("decr_consumer_visible", decr_is_larger(b), 1, b);
            chk("neg_consumer_visible", neg_is_negative(b), 1, b);
            chk("abs_consumer_visible", abs_is_negative(b), 1, b);
            chk("mul_consumer_visible", product_is_negative(q), 1, q);
            chk("sub_consumer_visible", diff_is_positive(b), 1, b);
        }
    }
};

void vh::unit_main()
{
    Vis<int8_t>::run();
    Vis<int16_t>::run();
    Vis<int32_t>::run();
    Vis<int64_t>::run();
    uint64_t s = ctx().seed;
    run_type<int8_t>(s);
    run_type<uint8_t>(s);
    run_type<int16_t>(s);
    run_type<uint16_t>(s);
    run_type<int32_t>(s);
    run_type<uint32_t>(s);
    run_type<int64_t>(s);
    run_type<uint64_t>(s);
}
VH_MAIN()
