// C19 compile-time constant batches: batch_constant / batch_bool_constant / make_batch_constant,
// their constexpr operators, and select with a constant mask versus the run-time form.
// Every pack is a type: the families below are fixed at build time.
#include "../common/shufgen.hpp"
#include "../common/vcheck.hpp"
#include "../common/accept.hpp"
using namespace vh;

constexpr uint64_t cmix(uint64_t z)
{
    z = (z ^ (z >> 30)) * 0xbf58476d1ce4e5b9ull;
    z = (z ^ (z >> 27)) * 0x94d049bb133111ebull;
    return z ^ (z >> 31);
}
// value generators (kept small so that every constexpr operator is defined: no overflow after promotion)
template <unsigned S>
struct GSmall
{
    static constexpr uint64_t get(size_t i, size_t) { return cmix(S * 1000003ull + i * 7919ull + 1) % 100 + 1; }
};
template <unsigned S>
struct GWide // full-range bit patterns: only used for conversion / get, not for * / %
{
    static constexpr uint64_t get(size_t i, size_t) { return cmix(S * 1000003ull + i * 7919ull + 11); }
};
// signed packs: values in [-100, 100] without 0 (so that / and % are defined); only instantiated for signed T
template <unsigned S>
struct GNeg
{
    static constexpr int64_t get(size_t i, size_t)
    {
        return (int64_t)(cmix(S * 1000003ull + i * 7919ull + 3) % 201) - 100 == 0 ? 7 : (int64_t)(cmix(S * 1000003ull + i * 7919ull + 3) % 201) - 100;
    }
};
// generators that depend on the size argument n: make_batch_constant must pass the lane count
struct GUsesN
{
    static constexpr uint64_t get(size_t i, size_t n) { return (n - i) * 3 + n; }
};
struct GBoolUsesN
{
    static constexpr bool get(size_t i, size_t n) { return ((i + n) % 3) == 0 || i + 1 == n; }
};
struct GArange
{
    static constexpr uint64_t get(size_t i, size_t) { return i; }
};
struct GConst7
{
    static constexpr uint64_t get(size_t, size_t) { return 7; }
};
struct GAlt
{
    static constexpr uint64_t get(size_t i, size_t) { return (i & 1) ? 3 : 40; }
};
template <unsigned K>
struct GValOneHot
{
    static constexpr uint64_t get(size_t i, size_t n) { return i == K % n ? 9 : 0; }
};
// bool generators
template <unsigned S>
struct GB
{
    static constexpr bool get(size_t i, size_t) { return cmix(S * 1000003ull + i * 7919ull + 1) & 1; }
};
template <unsigned K>
struct GOneHot
{
    static constexpr bool get(size_t i, size_t) { return i == K; }
};
template <unsigned K>
struct GAllBut
{
    static constexpr bool get(size_t i, size_t) { return i != K; }
};
struct GPrefixHalf
{
    static constexpr bool get(size_t i, size_t n) { return i < n / 2; }
};
struct GAltB
{
    static constexpr bool get(size_t i, size_t) { return i & 1; }
};
struct GAllTrue
{
    static constexpr bool get(size_t, size_t) { return true; }
};
struct GAllFalse
{
    static constexpr bool get(size_t, size_t) { return false; }
};

template <class T, class G>
static void value_const(const char* gname)
{
    using B = xs::batch<T, ARCH>;
    constexpr size_t N = B::size;
    static OpStat& st = reg("C19", "batch_constant_lanes", tname<T>());
    if (!st.on)
        return;
    constexpr auto c = xs::make_batch_constant<T, G, ARCH>();
    alignas(64) T o[N], o2[N];
    mark_case("batch_constant", tname<T>(), nullptr, 0);
    B b = c; // conversion operator
    b.store_aligned(o);
    c.as_batch().store_aligned(o2);
    st.evals += N;
    st.cell((unsigned)(strhash(gname) & 0xffff));
    for (size_t i = 0; i < N; ++i)
    {
        T e = (T)G::get(i, N);
        if (o[i] != e || o2[i] != e || c.get(i) != e)
        {
            viol(st, "unclassified", "{\"family\":\"" + std::string(gname) + "\",\"lane\":" + std::to_string(i) + ",\"pack\":\"" + hexv(e) + "\",\"converted\":\"" + hexv(o[i]) + "\",\"as_batch\":\"" + hexv(o2[i]) + "\",\"get\":\"" + hexv((T)c.get(i)) + "\"}");
            break;
        }
    }
    if (st.want_sample())
        st.samples.push_back("{\"family\":\"" + std::string(gname) + "\",\"lanes\":" + hexarr(o, N) + "}");
}

// operators on two small-valued packs: result constant converted to a batch == lane-wise scalar op
template <class T, class G1, class G2>
static void value_ops(const char* gname)
{
    using B = xs::batch<T, ARCH>;
    constexpr size_t N = B::size;
    static OpStat& st = reg("C19", "batch_constant_operators", tname<T>());
    if (!st.on)
        return;
    constexpr auto c1 = xs::make_batch_constant<T, G1, ARCH>();
    constexpr auto c2 = xs::make_batch_constant<T, G2, ARCH>();
    alignas(64) T r[N];
    T x[N], y[N];
    for (size_t i = 0; i < N; ++i)
    {
        x[i] = (T)G1::get(i, N);
        y[i] = (T)G2::get(i, N);
    }
    auto chk = [&](const char* opn, B rb, auto f)
    {
        rb.store_aligned(r);
        st.evals += N;
        st.cell((unsigned)((strhash(gname) ^ strhash(opn)) & 0xffff));
        for (size_t i = 0; i < N; ++i)
        {
            T e = (T)f(x[i], y[i]);
            if (r[i] != e)
            {
                viol(st, "unclassified", "{\"op\":\"" + std::string(opn) + "\",\"family\":\"" + gname + "\",\"lane\":" + std::to_string(i) + ",\"x\":\"" + hexv(x[i]) + "\",\"y\":\"" + hexv(y[i]) + "\",\"got\":\"" + hexv(r[i]) + "\",\"exp\":\"" + hexv(e) + "\"}");
                break;
            }
        }
    };
    mark_case("batch_constant_operators", tname<T>(), nullptr, 0);
    chk("+", (c1 + c2).as_batch(), [](T a, T b2) { return a + b2; });
    chk("-", (c1 - c2).as_batch(), [](T a, T b2) { return a - b2; });
    chk("*", (c1 * c2).as_batch(), [](T a, T b2) { return a * b2; });
    chk("/", (c1 / c2).as_batch(), [](T a, T b2) { return a / b2; });
    chk("%", (c1 % c2).as_batch(), [](T a, T b2) { return a % b2; });
    chk("&", (c1 & c2).as_batch(), [](T a, T b2) { return a & b2; });
    chk("|", (c1 | c2).as_batch(), [](T a, T b2) { return a | b2; });
    chk("^", (c1 ^ c2).as_batch(), [](T a, T b2) { return a ^ b2; });
    chk("unary-", (-c1).as_batch(), [](T a, T) { return -a; });
    chk("unary+", (+c1).as_batch(), [](T a, T) { return +a; });
    chk("~", (~c1).as_batch(), [](T a, T) { return ~a; });
    // the same results must be usable in constant expressions
    static_assert(decltype(c1 + c2)::size == N, "size preserved");
}

template <class T, class G, bool WithOps = true>
static void bool_const(Rng& rng, const char* gname)
{
    using B = xs::batch<T, ARCH>;
    using BB = xs::batch_bool<T, ARCH>;
    constexpr size_t N = B::size;
    static OpStat& st = reg("C19", "batch_bool_constant_lanes", tname<T>());
    static OpStat& sm = reg("C19", "batch_bool_constant_mask", tname<T>());
    static OpStat& so = reg("C19", "batch_bool_constant_operators", tname<T>());
    static OpStat& ss = reg("C19", "select_constant_vs_runtime", tname<T>());
    constexpr auto c = xs::make_batch_bool_constant<T, G, ARCH>();
    bool bo[N], bo2[N], e[N];
    uint64_t em = 0;
    for (size_t i = 0; i < N; ++i)
    {
        e[i] = G::get(i, N);
        if (e[i])
            em |= 1ull << i;
    }
    const unsigned cell = (unsigned)(strhash(gname) & 0xffff);
    std::string wit = std::string("\"family\":\"") + gname + "\",\"pack\":" + hexarr(e, N);
    mark_case("batch_bool_constant", tname<T>(), nullptr, 0);
    if (st.on)
    {
        BB b = c;
        b.store_unaligned(bo);
        c.as_batch_bool().store_unaligned(bo2);
        st.evals += N;
        st.cell(cell);
        for (size_t i = 0; i < N; ++i)
            if (bo[i] != e[i] || bo2[i] != e[i] || c.get(i) != e[i])
            {
                viol(st, "unclassified", "{" + wit + ",\"lane\":" + std::to_string(i) + ",\"converted\":" + hexarr(bo, N) + "}");
                break;
            }
        if (st.want_sample())
            st.samples.push_back("{" + wit + "}");
    }
    if constexpr (N <= 32)
    {
        if (sm.on)
        {
            sm.evals++;
            sm.cell(cell);
            if ((uint64_t)(uint32_t)c.mask() != em)
                viol(sm, "unclassified", "{" + wit + ",\"mask\":\"" + hexv((uint32_t)c.mask()) + "\",\"exp\":\"" + hexv(em) + "\"}");
        }
    }
    if constexpr (WithOps)
    if (so.on)
    {
        constexpr auto c2 = xs::make_batch_bool_constant<T, GB<91>, ARCH>();
        auto chk = [&](const char* opn, BB rb, auto f)
        {
            rb.store_unaligned(bo);
            so.evals += N;
            so.cell((unsigned)((strhash(gname) ^ strhash(opn)) & 0xffff));
            for (size_t i = 0; i < N; ++i)
                if (bo[i] != f(e[i], GB<91>::get(i, N)))
                {
                    viol(so, "unclassified", "{" + wit + ",\"op\":\"" + opn + "\",\"lane\":" + std::to_string(i) + "}");
                    break;
                }
        };
        chk("&", (c & c2).as_batch_bool(), [](bool a, bool b2) { return a && b2; });
        chk("&&", (c && c2).as_batch_bool(), [](bool a, bool b2) { return a && b2; });
        chk("|", (c | c2).as_batch_bool(), [](bool a, bool b2) { return a || b2; });
        chk("||", (c || c2).as_batch_bool(), [](bool a, bool b2) { return a || b2; });
        chk("^", (c ^ c2).as_batch_bool(), [](bool a, bool b2) { return a != b2; });
        chk("!", (!c).as_batch_bool(), [](bool a, bool) { return !a; });
        chk("~", (~c).as_batch_bool(), [](bool a, bool) { return !a; });
    }
    if (ss.on)
    {
        alignas(64) T x[N], y[N], o1[N], o2[N];
        for (int rep = 0; rep < 4; ++rep)
        {
            for (size_t i = 0; i < N; ++i)
            {
                x[i] = frombits<T>((bits_t<T>)rng.next());
                y[i] = frombits<T>((bits_t<T>)rng.next());
            }
            B vx = B::load_aligned(x), vy = B::load_aligned(y);
            mark_case("select_constant", tname<T>(), x, sizeof x);
            xs::select(c, vx, vy).store_aligned(o1);
            xs::select(BB(c), vx, vy).store_aligned(o2);
            ss.evals += N;
            ss.cell(cell);
            bool bad = memcmp(o1, o2, sizeof o1) != 0;
            for (size_t i = 0; i < N && !bad; ++i)
                if (!same_bits(e[i] ? x[i] : y[i], o1[i]))
                    bad = true;
            if (bad)
                viol(ss, "unclassified", "{" + wit + ",\"x\":" + hexarr(x, N) + ",\"y\":" + hexarr(y, N) + ",\"constant_form\":" + hexarr(o1, N) + ",\"runtime_form\":" + hexarr(o2, N) + "}");
        }
    }
}

template <class T, unsigned... Ks>
static void per_lane_bool(Rng& rng, std::integer_sequence<unsigned, Ks...>)
{
    (bool_const<T, GOneHot<Ks>, false>(rng, "one_hot"), ...);
    (bool_const<T, GAllBut<Ks>, false>(rng, "all_but_one"), ...);
}
template <class T, unsigned... Ks>
static void per_lane_value(std::integer_sequence<unsigned, Ks...>)
{
    (value_const<T, GValOneHot<Ks>>("one_hot_value"), ...);
}

// ---------------------------------------------------------------- constant-parameter APIs, compact subset
// (the full mask families live in the data-movement unit, which the thorough tier of C19 also runs)
struct GRev19
{
    static constexpr size_t get(size_t i, size_t n) { return n - 1 - i; }
};
template <unsigned S>
struct GIdx19
{
    static constexpr size_t get(size_t i, size_t n) { return cmix(S * 1000003ull + i * 7919ull + 9) % n; }
};
template <unsigned S>
struct GShuf19
{
    static constexpr size_t get(size_t i, size_t n) { return cmix(S * 1000003ull + i * 7919ull + 13) % (2 * n); }
};
template <class T, class G>
static void swizzle_const_runtime(Rng& rng, const char* gname)
{
    using B = xs::batch<T, ARCH>;
    using IT = xs::as_unsigned_integer_t<T>;
    using M = decltype(xs::make_batch_constant<IT, G, ARCH>());
    constexpr size_t N = B::size;
    static OpStat& st = reg("C19", "swizzle_const_vs_runtime", tname<T>());
    if constexpr (has_cswz<T, ARCH, M>::value && has_dswz<T, ARCH>::value)
    {
        if (!st.on)
            return;
        alignas(64) T a[N], o1[N], o2[N];
        for (int rep = 0; rep < 3; ++rep)
        {
            for (size_t i = 0; i < N; ++i)
                a[i] = frombits<T>((bits_t<T>)((rng.next() << 8) | i));
            mark_case("swizzle_const_vs_runtime", tname<T>(), a, sizeof a);
            xs::swizzle(B::load_aligned(a), M {}).store_aligned(o1);
            xs::swizzle(B::load_aligned(a), xs::batch<IT, ARCH>(M {})).store_aligned(o2);
            st.evals += N;
            st.cell((unsigned)(strhash(gname) & 0xffff));
            bool bad = memcmp(o1, o2, sizeof o1) != 0;
            for (size_t i = 0; i < N && !bad; ++i)
                if (!same_bits(a[G::get(i, N)], o1[i]))
                    bad = true;
            if (bad)
                viol(st, "unclassified", "{\"family\":\"" + std::string(gname) + "\",\"src\":" + hexarr(a, N) + ",\"constant_form\":" + hexarr(o1, N) + ",\"runtime_form\":" + hexarr(o2, N) + "}");
        }
    }
}
template <class T, class G>
static void shuffle_const(Rng& rng, const char* gname)
{
    using B = xs::batch<T, ARCH>;
    using IT = xs::as_unsigned_integer_t<T>;
    using M = decltype(xs::make_batch_constant<IT, G, ARCH>());
    constexpr size_t N = B::size;
    static OpStat& st = reg("C19", "shuffle_constant_mask", tname<T>());
    // only the element widths every architecture accepts for a general two-source mask (32/64-bit)
    if constexpr (sizeof(T) >= 4)
    {
        if (!st.on)
            return;
        alignas(64) T a[N], b[N], o[N];
        for (size_t i = 0; i < N; ++i)
        {
            a[i] = frombits<T>((bits_t<T>)((rng.next() << 8) | i));
            b[i] = frombits<T>((bits_t<T>)((rng.next() << 8) | 0x80 | i));
        }
        mark_case("shuffle_constant_mask", tname<T>(), a, sizeof a);
        xs::shuffle(B::load_aligned(a), B::load_aligned(b), M {}).store_aligned(o);
        st.evals += N;
        st.cell((unsigned)(strhash(gname) & 0xffff));
        for (size_t i = 0; i < N; ++i)
        {
            size_t k = G::get(i, N);
            if (!same_bits(k < N ? a[k] : b[k - N], o[i]))
            {
                viol(st, "unclassified", "{\"family\":\"" + std::string(gname) + "\",\"lane\":" + std::to_string(i) + ",\"x\":" + hexarr(a, N) + ",\"y\":" + hexarr(b, N) + ",\"got\":" + hexarr(o, N) + "}");
                break;
            }
        }
    }
}
// packs on / one index away from the in-lane fast-path shapes of the shuffle kernels (common/shufgen.hpp)
template <class T, unsigned Shape, size_t... P>
static void shuffle_near(Rng& rng, std::index_sequence<P...>)
{
    constexpr size_t N = xs::batch<T, ARCH>::size;
    static const std::string nm = "near_shape" + std::to_string(Shape);
    shuffle_const<T, SNear<Shape, 0, N, 0>>(rng, (nm + "_base").c_str());
    (shuffle_const<T, SNear<Shape, 0, P, 0>>(rng, (nm + "_other_source@" + std::to_string(P)).c_str()), ...);
    (shuffle_const<T, SNear<Shape, 0, P, 1>>(rng, (nm + "_other_lane@" + std::to_string(P)).c_str()), ...);
}
template <class T>
static void insert_const(Rng& rng)
{
    using B = xs::batch<T, ARCH>;
    constexpr size_t N = B::size;
    static OpStat& st = reg("C19", "insert_constant_index", tname<T>());
    if (!st.on)
        return;
    alignas(64) T a[N], o[N];
    for (size_t i = 0; i < N; ++i)
        a[i] = frombits<T>((bits_t<T>)((rng.next() << 8) | i));
    T v = frombits<T>((bits_t<T>)rng.next());
    B va = B::load_aligned(a);
    auto chk = [&](size_t k, B r)
    {
        r.store_aligned(o);
        st.evals += N;
        st.cell((unsigned)k);
        for (size_t i = 0; i < N; ++i)
            if (!same_bits(i == k ? v : a[i], o[i]))
            {
                viol(st, "unclassified", "{\"I\":" + std::to_string(k) + ",\"lane\":" + std::to_string(i) + ",\"src\":" + hexarr(a, N) + ",\"got\":" + hexarr(o, N) + "}");
                break;
            }
    };
    mark_case("insert_constant_index", tname<T>(), a, sizeof a);
    chk(0, xs::insert(va, v, xs::index<0>()));
    chk(N / 2, xs::insert(va, v, xs::index<N / 2>()));
    chk(N - 1, xs::insert(va, v, xs::index<N - 1>()));
    chk(1 % N, xs::insert(va, v, xs::index<1 % N>()));
}

template <class T>
static void all_types(Rng& rng)
{
    swizzle_const_runtime<T, GRev19>(rng, "reverse");
    swizzle_const_runtime<T, GIdx19<1>>(rng, "random1");
    swizzle_const_runtime<T, GIdx19<2>>(rng, "random2");
    shuffle_const<T, GShuf19<1>>(rng, "random1");
    shuffle_const<T, GShuf19<2>>(rng, "random2");
    if constexpr (sizeof(T) >= 4)
    {
        using Seq = std::make_index_sequence<xs::batch<T, ARCH>::size>;
        shuffle_near<T, 0>(rng, Seq {});
        shuffle_near<T, 1>(rng, Seq {});
        shuffle_near<T, 2>(rng, Seq {});
        shuffle_near<T, 3>(rng, Seq {});
    }
    insert_const<T>(rng);
    using B = xs::batch<T, ARCH>;
    constexpr unsigned N = (unsigned)B::size;
    if constexpr (std::is_integral<T>::value)
    {
        value_const<T, GSmall<1>>("small1");
        value_const<T, GSmall<2>>("small2");
        value_const<T, GWide<1>>("wide1");
        value_const<T, GWide<2>>("wide2");
        value_const<T, GWide<3>>("wide3");
        value_const<T, GArange>("arange");
        value_const<T, GUsesN>("uses_n");
        value_const<T, GConst7>("constant");
        value_const<T, GAlt>("alternating");
        per_lane_value<T>(std::make_integer_sequence<unsigned, N> {});
        value_ops<T, GSmall<1>, GSmall<2>>("small1_small2");
        value_ops<T, GSmall<3>, GAlt>("small3_alt");
        value_ops<T, GArange, GConst7>("arange_const");
        if constexpr (std::is_signed<T>::value)
        {
            // negative numerators / denominators: signed division and remainder truncate toward zero
            value_const<T, GNeg<1>>("signed1");
            value_const<T, GNeg<2>>("signed2");
            value_ops<T, GNeg<1>, GNeg<2>>("signed1_signed2");
            value_ops<T, GNeg<3>, GSmall<2>>("signed3_small2");
            value_ops<T, GSmall<1>, GNeg<4>>("small1_signed4");
        }
    }
    bool_const<T, GB<1>>(rng, "random1");
    bool_const<T, GB<2>>(rng, "random2");
    bool_const<T, GB<3>>(rng, "random3");
    bool_const<T, GB<4>>(rng, "random4");
    bool_const<T, GPrefixHalf>(rng, "prefix_half");
    bool_const<T, GBoolUsesN>(rng, "uses_n");
    bool_const<T, GAltB>(rng, "alternating");
    bool_const<T, GAllTrue>(rng, "all_true");
    bool_const<T, GAllFalse>(rng, "all_false");
    per_lane_bool<T>(rng, std::make_integer_sequence<unsigned, N> {});
}

void vh::unit_main()
{
    Rng rng(mix(ctx().seed, 1919));
    all_types<int8_t>(rng);
    all_types<uint8_t>(rng);
    all_types<int16_t>(rng);
    all_types<uint16_t>(rng);
    all_types<int32_t>(rng);
    all_types<uint32_t>(rng);
    all_types<int64_t>(rng);
    all_types<uint64_t>(rng);
    all_types<float>(rng);
    all_types<double>(rng);
}
VH_MAIN()
