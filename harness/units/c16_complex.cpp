// C16 complex batches: arithmetic, comparisons, exact component accessors, and the complex
// elementary functions against std::complex<long double> on a log-polar operand grid that
// contains the axes, the diagonals and both sides of the branch cuts (+-0 imaginary parts).
#include "../common/vcheck.hpp"
#include <complex>
#include <utility>
using namespace vh;
typedef long double ld;
typedef std::complex<ld> CL;

template <class T>
struct Gen
{
    using C = std::complex<T>;
    // modulus 2^k (k in [-maxk, maxk]) times [1,2); direction: one of the 8 axis/diagonal directions exactly, or random
    static C get(Rng& r, int maxk, int& cls)
    {
        int k = (int)(r.next() % (uint64_t)(2 * maxk + 1)) - maxk;
        ld mod = ldexpl(1.0L + (ld)(r.next() % 1000) / 1000.0L, k);
        int am = (int)(r.next() % 10);
        if (am < 4)
        {
            int q = (int)(r.next() % 8);
            T m = (T)mod;
            T pz = (r.next() & 1) ? (T)0.0 : (T)-0.0; // which side of the cut
            cls = q;
            switch (q)
            {
            case 0: return C(m, pz);
            case 1: return C(m, m);
            case 2: return C(pz, m);
            case 3: return C(-m, m);
            case 4: return C(-m, pz);
            case 5: return C(-m, -m);
            case 6: return C(pz, -m);
            default: return C(m, -m);
            }
        }
        ld th = (ld)r.unit() * 6.283185307179586476925L;
        cls = 8 + (int)(th / 0.78539816339744830961566L);
        return C((T)(mod * cosl(th)), (T)(mod * sinl(th)));
    }
};

template <class T>
static std::string chex(std::complex<T> z)
{
    return "[\"" + hexv(z.real()) + "\",\"" + hexv(z.imag()) + "\"]";
}

template <class T>
static void run_type(uint64_t seed)
{
    using C = std::complex<T>;
    using B = xs::batch<C, ARCH>;
    using RB = xs::batch<T, ARCH>;
    constexpr size_t N = B::size;
    const ld eps = std::numeric_limits<T>::epsilon();
    Rng rng(mix(seed, 1616 + sizeof(T)));
    C a[N], b[N], c[N], o[N];
    alignas(64) T rr[N], ro[N];
    int ca[N], cb[N], cc[N];
    long iters = budget(3000, 100000);

    // component-wise comparison against the reference
    //   mode 0: relative to |ref|           (arithmetic)
    //   mode 1: relative to max(|ref|, 1)   (functions)
    //   mode 2: relative to max(|ref|, |x||y| + |z|)  (fused forms)
    auto cmpc = [&](const char* name, const B& r, auto reff, ld tol, int mode, auto classify)
    {
        static std::map<std::string, OpStat*> cache;
        OpStat*& sp = cache[std::string(name) + tname<T>()];
        if (!sp)
            sp = &reg("C16", name, (std::string("c") + tname<T>()).c_str());
        OpStat& st = *sp;
        if (!st.on)
            return;
        r.store_unaligned(o);
        for (size_t i = 0; i < N; ++i)
        {
            CL x(a[i]), y(b[i]), z(c[i]);
            CL ref = reff(x, y, z, (ld)rr[i]);
            if (!std::isfinite((double)ref.real()) || !std::isfinite((double)ref.imag()))
                continue;
            ld m = std::abs(ref);
            if (m > (ld)std::numeric_limits<T>::max() / 4)
                continue;
            ld den = mode == 0 ? m : mode == 1 ? std::max(m, 1.0L) : std::max(m, std::abs(x) * std::abs(y) + std::abs(z));
            if (den < (ld)std::numeric_limits<T>::min() * 4)
                continue; // results in the subnormal range are not claimed
            ld e = std::max(fabsl((ld)o[i].real() - ref.real()), fabsl((ld)o[i].imag() - ref.imag())) / (eps * den);
            if (std::isnan(o[i].real()) || std::isnan(o[i].imag()))
                e = 1e30L;
            st.evals++;
            st.cell((unsigned)(i << 10 | (unsigned)ca[i] << 5 | (unsigned)cb[i]));
            if (!(e <= tol))
                viol(st, classify(x, y), "{\"x\":" + chex(a[i]) + ",\"y\":" + chex(b[i]) + ",\"z\":" + chex(c[i]) + ",\"r\":\"" + hexv(rr[i]) + "\",\"got\":" + chex(o[i]) + ",\"ref_re\":" + std::to_string((double)ref.real()) + ",\"ref_im\":" + std::to_string((double)ref.imag()) + ",\"err_eps\":" + std::to_string((double)e) + ",\"tol_eps\":" + std::to_string((double)tol) + ",\"lane\":" + std::to_string(i) + "}");
            else if (st.want_sample())
                st.samples.push_back("{\"x\":" + chex(a[i]) + ",\"y\":" + chex(b[i]) + ",\"got\":" + chex(o[i]) + ",\"err_eps\":" + std::to_string((double)e) + "}");
        }
    };
    auto cmpr = [&](const char* name, const RB& r, auto reff, ld tol, bool exact)
    {
        static std::map<std::string, OpStat*> cache;
        OpStat*& sp = cache[std::string(name) + tname<T>()];
        if (!sp)
            sp = &reg("C16", name, (std::string("c") + tname<T>()).c_str());
        OpStat& st = *sp;
        if (!st.on)
            return;
        r.store_aligned(ro);
        for (size_t i = 0; i < N; ++i)
        {
            CL x(a[i]);
            ld ref = reff(x);
            if (!std::isfinite((double)ref))
                continue;
            st.evals++;
            st.cell((unsigned)(i << 5 | (unsigned)ca[i]));
            bool bad;
            ld e = 0;
            if (exact)
                bad = !same_bits(ro[i], (T)ref);
            else
            {
                ld den = std::max(fabsl(ref), 1.0L);
                e = fabsl((ld)ro[i] - ref) / (eps * den);
                bad = std::isnan(ro[i]) || !(e <= tol);
            }
            if (bad)
                viol(st, "unclassified", "{\"x\":" + chex(a[i]) + ",\"got\":\"" + hexv(ro[i]) + "\",\"ref\":" + std::to_string((double)ref) + ",\"err_eps\":" + std::to_string((double)e) + ",\"lane\":" + std::to_string(i) + "}");
        }
    };
    auto none = [](CL, CL) { return "unclassified"; };

    for (long it = 0; it < iters; ++it)
    {
        // moduli: |k| <= 20 (arithmetic), 4 (functions that exponentiate), 1
        int mk = (it % 3 == 0) ? 20 : (it % 3 == 1 ? 4 : 1);
        for (size_t i = 0; i < N; ++i)
        {
            a[i] = Gen<T>::get(rng, mk, ca[i]);
            b[i] = Gen<T>::get(rng, mk, cb[i]);
            c[i] = Gen<T>::get(rng, mk, cc[i]);
            rr[i] = (T)((int)(rng.next() % 9) - 4) + ((rng.next() & 1) ? (T)0.5 : (T)0);
        }
        if (it % 16 == 7 || it % 16 == 11)
        { // whole-batch classes (drive all()/any() shortcuts): every lane on the real axis (both signs, +-0 imaginary part),
          // or every lane on the imaginary axis
            const bool real_axis = it % 16 == 7;
            for (size_t i = 0; i < N; ++i)
            {
                T m = (T)std::ldexp(1.0 + (double)(rng.next() % 1000) / 1000.0, (int)(rng.next() % 5) - 2);
                if (rng.next() & 1)
                    m = -m;
                T z0 = (rng.next() & 1) ? (T)0.0 : (T)-0.0;
                a[i] = real_axis ? C(m, z0) : C(z0, m);
                ca[i] = real_axis ? (m < 0 ? 4 : 0) : (m < 0 ? 6 : 2);
            }
        }
        if (it == 1)
        { // fixed probes of the former findings F24 / F25a / F25b (repaired in /repo): kept so that a regression is seen whatever the seed
            a[0] = C((T)-4, (T)-0.0);
            ca[0] = 4;
            a[N - 1] = C((T)1.5717963267948966, (T)0);   // pi/2 + 1e-3: real-axis pole of tan
            ca[N - 1] = 0;
        }
        if (it == 4)
        {
            a[0] = C((T)0, (T)1.5717963267948966);        // i*(pi/2 + 1e-3): imaginary-axis pole of tanh
            ca[0] = 2;
        }
        mark_case("complex_ops", tname<T>(), a, sizeof a);
        B va = B::load_unaligned(a), vb = B::load_unaligned(b), vc = B::load_unaligned(c);
        RB vr = RB::load_aligned(rr);
        // arithmetic: 8 eps of |result|
        cmpc("add", va + vb, [](CL x, CL y, CL, ld) { return x + y; }, 8, 0, none);
        cmpc("sub", va - vb, [](CL x, CL y, CL, ld) { return x - y; }, 8, 0, none);
        cmpc("mul", va * vb, [](CL x, CL y, CL, ld) { return x * y; }, 8, 0, none);
        cmpc("div", va / vb, [](CL x, CL y, CL, ld) { return y == CL(0) ? CL(NAN, NAN) : x / y; }, 8, 0, none);
        cmpc("neg", -va, [](CL x, CL, CL, ld) { return -x; }, 0, 0, none);
        cmpc("mul_real_batch", va * vr, [](CL x, CL, CL, ld r) { return x * r; }, 8, 0, none);
        cmpc("add_real_batch", va + vr, [](CL x, CL, CL, ld r) { return x + r; }, 8, 0, none);
        cmpc("div_real_batch", va / vr, [](CL x, CL, CL, ld r) { return r == 0 ? CL(NAN, NAN) : x / r; }, 8, 0, none);
        cmpc("sub_real_batch", va - vr, [](CL x, CL, CL, ld r) { return x - r; }, 8, 0, none);
        cmpc("real_batch_add", vr + va, [](CL x, CL, CL, ld r) { return r + x; }, 8, 0, none);
        cmpc("real_batch_sub", vr - va, [](CL x, CL, CL, ld r) { return r - x; }, 8, 0, none);
        cmpc("real_batch_mul", vr * va, [](CL x, CL, CL, ld r) { return r * x; }, 8, 0, none);
        cmpc("real_batch_div", vr / va, [](CL x, CL, CL, ld r) { return x == CL(0) ? CL(NAN, NAN) : CL(r) / x; }, 8, 0, none);
        {
            // a scalar complex / scalar real on either side
            const C sc = b[0];
            const CL scl(sc);
            const T sr = rr[0] == 0 ? (T)1.5 : rr[0];
            const ld srl = sr;
            cmpc("add_scalar_complex", va + sc, [scl](CL x, CL, CL, ld) { return x + scl; }, 8, 0, none);
            cmpc("scalar_complex_sub", sc - va, [scl](CL x, CL, CL, ld) { return scl - x; }, 8, 0, none);
            cmpc("mul_scalar_complex", va * sc, [scl](CL x, CL, CL, ld) { return x * scl; }, 8, 0, none);
            cmpc("scalar_complex_div", sc / va, [scl](CL x, CL, CL, ld) { return x == CL(0) ? CL(NAN, NAN) : scl / x; }, 8, 0, none);
            cmpc("mul_scalar_real", va * sr, [srl](CL x, CL, CL, ld) { return x * srl; }, 8, 0, none);
            cmpc("scalar_real_sub", sr - va, [srl](CL x, CL, CL, ld) { return srl - x; }, 8, 0, none);
            cmpc("div_scalar_real", va / sr, [srl](CL x, CL, CL, ld) { return x / srl; }, 8, 0, none);
        }
        {
            // other API forms: compound assignment (complex and real right-hand sides), named functions, ++ / --
            B t = va; t += vb;
            cmpc("add_assign", t, [](CL x, CL y, CL, ld) { return x + y; }, 8, 0, none);
            t = va; t -= vb;
            cmpc("sub_assign", t, [](CL x, CL y, CL, ld) { return x - y; }, 8, 0, none);
            t = va; t *= vb;
            cmpc("mul_assign", t, [](CL x, CL y, CL, ld) { return x * y; }, 8, 0, none);
            t = va; t /= vb;
            cmpc("div_assign", t, [](CL x, CL y, CL, ld) { return y == CL(0) ? CL(NAN, NAN) : x / y; }, 8, 0, none);
            // aliased operands: the right-hand side is the object being assigned to (z *= z is how ipow squares), and the
            // operator forms with both operands the same object
            t = va; t += t;
            cmpc("add_assign_self", t, [](CL x, CL, CL, ld) { return x + x; }, 8, 0, none);
            t = va; t -= t;
            cmpc("sub_assign_self", t, [](CL x, CL, CL, ld) { return x - x; }, 8, 0, none);
            t = va; t *= t;
            cmpc("mul_assign_self", t, [](CL x, CL, CL, ld) { return x * x; }, 8, 0, none);
            t = va; t /= t;
            cmpc("div_assign_self", t, [](CL x, CL, CL, ld) { return x == CL(0) ? CL(NAN, NAN) : x / x; }, 8, 0, none);
            cmpc("mul_same_object", va * va, [](CL x, CL, CL, ld) { return x * x; }, 8, 0, none);
            if (mk <= 4)
            { // pow with an integer exponent (square-and-multiply): |n| <= 8, tolerance 32 eps like the other pow form
                const int n = (int)(it % 17) - 8;
                cmpc("pow_int_exponent", xs::pow(va, n), [n](CL x, CL, CL, ld) { if (x == CL(0)) return CL(NAN, NAN); CL p(1); for (int i = 0; i < std::abs(n); ++i) p *= x; return n < 0 ? CL(1) / p : p; }, 32, 0, none);
            }
            t = va; t += vr;
            cmpc("add_assign_real_batch", t, [](CL x, CL, CL, ld r) { return x + r; }, 8, 0, none);
            t = va; t -= vr;
            cmpc("sub_assign_real_batch", t, [](CL x, CL, CL, ld r) { return x - r; }, 8, 0, none);
            t = va; t *= vr;
            cmpc("mul_assign_real_batch", t, [](CL x, CL, CL, ld r) { return x * r; }, 8, 0, none);
            t = va; t /= vr;
            cmpc("div_assign_real_batch", t, [](CL x, CL, CL, ld r) { return r == 0 ? CL(NAN, NAN) : x / r; }, 8, 0, none);
            t = va; ++t;
            cmpc("preinc", t, [](CL x, CL, CL, ld) { return x + CL(1); }, 8, 0, none);
            t = va; --t;
            cmpc("predec", t, [](CL x, CL, CL, ld) { return x - CL(1); }, 8, 0, none);
            t = va;
            B old = t++;
            cmpc("postinc_result", old, [](CL x, CL, CL, ld) { return x; }, 0, 0, none);
            cmpc("postinc_effect", t, [](CL x, CL, CL, ld) { return x + CL(1); }, 8, 0, none);
            cmpc("xs_add", xs::add(va, vb), [](CL x, CL y, CL, ld) { return x + y; }, 8, 0, none);
            cmpc("xs_sub", xs::sub(va, vb), [](CL x, CL y, CL, ld) { return x - y; }, 8, 0, none);
            cmpc("xs_mul", xs::mul(va, vb), [](CL x, CL y, CL, ld) { return x * y; }, 8, 0, none);
            cmpc("xs_div", xs::div(va, vb), [](CL x, CL y, CL, ld) { return y == CL(0) ? CL(NAN, NAN) : x / y; }, 8, 0, none);
            cmpc("xs_neg", xs::neg(va), [](CL x, CL, CL, ld) { return -x; }, 0, 0, none);
        }
        cmpc("fma", xs::fma(va, vb, vc), [](CL x, CL y, CL z, ld) { return x * y + z; }, 8, 2, none);
        cmpc("fms", xs::fms(va, vb, vc), [](CL x, CL y, CL z, ld) { return x * y - z; }, 8, 2, none);
        cmpc("fnma", xs::fnma(va, vb, vc), [](CL x, CL y, CL z, ld) { return -(x * y) + z; }, 8, 2, none);
        cmpc("fnms", xs::fnms(va, vb, vc), [](CL x, CL y, CL z, ld) { return -(x * y) - z; }, 8, 2, none);
        // exact component operations
        cmpc("conj", xs::conj(va), [](CL x, CL, CL, ld) { return std::conj(x); }, 0, 0, none);
        cmpc("proj", xs::proj(va), [](CL x, CL, CL, ld) { return std::proj(x); }, 0, 0, none);
        cmpr("real", xs::real(va), [](CL x) { return x.real(); }, 0, true);
        cmpr("imag", xs::imag(va), [](CL x) { return x.imag(); }, 0, true);
        cmpr("norm", xs::norm(va), [](CL x) { return std::norm(x); }, 32, false);
        cmpr("abs", xs::abs(va), [](CL x) { return std::abs(x); }, 32, false);
        cmpr("arg", xs::arg(va), [](CL x) { return std::arg(x); }, 32, false);
        cmpc("polar", xs::polar(xs::abs(va), xs::arg(va)), [](CL x, CL, CL, ld) { return x; }, 32, 1, none);
        // == / != compare both components
        {
            static OpStat& st = reg("C16", "eq_ne", (std::string("c") + tname<T>()).c_str());
            if (st.on)
            {
                C e2[N];
                for (size_t i = 0; i < N; ++i)
                    e2[i] = (rng.next() % 3 == 0) ? a[i] : ((rng.next() & 1) ? C(a[i].real(), b[i].imag()) : b[i]);
                B ve = B::load_unaligned(e2);
                auto eq = (va == ve);
                auto ne = (va != ve);
                for (size_t i = 0; i < N; ++i)
                {
                    bool want = a[i].real() == e2[i].real() && a[i].imag() == e2[i].imag();
                    st.evals += 2;
                    st.cell((unsigned)(i << 5 | (unsigned)ca[i]));
                    if (eq.get(i) != want || ne.get(i) != !want)
                        viol(st, "unclassified", "{\"x\":" + chex(a[i]) + ",\"y\":" + chex(e2[i]) + ",\"eq\":" + std::to_string((int)eq.get(i)) + ",\"ne\":" + std::to_string((int)ne.get(i)) + ",\"lane\":" + std::to_string(i) + "}");
                }
            }
        }
        if (mk <= 4)
        {
            // functions: 8 eps (exp, expm1, sqrt, sin, cos, sinh, cosh) / 32 eps (others) of max(|result|, 1)
            cmpc("exp", xs::exp(va), [](CL x, CL, CL, ld) { return std::exp(x); }, 8, 1, none);
            cmpc("expm1", xs::expm1(va), [](CL x, CL, CL, ld) { return std::exp(x) - CL(1); }, 8, 1, none);
            cmpc("log", xs::log(va), [](CL x, CL, CL, ld) { return std::log(x); }, 32, 1, none);
            cmpc("log2", xs::log2(va), [](CL x, CL, CL, ld) { return std::log(x) / logl(2.0L); }, 32, 1, none);
            cmpc("log10", xs::log10(va), [](CL x, CL, CL, ld) { return std::log10(x); }, 32, 1, none);
            cmpc("sqrt", xs::sqrt(va), [](CL x, CL, CL, ld) { return std::sqrt(x); }, 8, 1,
                 [](CL x, CL) { return (x.real() < 0 && x.imag() == 0 && std::signbit((double)x.imag())) ? "sqrt_negative_real_axis_minus_zero_imag" : "unclassified"; });
            cmpc("sin", xs::sin(va), [](CL x, CL, CL, ld) { return std::sin(x); }, 8, 1, none);
            cmpc("cos", xs::cos(va), [](CL x, CL, CL, ld) { return std::cos(x); }, 8, 1, none);
            {
                auto sc = xs::sincos(va);
                cmpc("sincos.first", sc.first, [](CL x, CL, CL, ld) { return std::sin(x); }, 8, 1, none);
                cmpc("sincos.second", sc.second, [](CL x, CL, CL, ld) { return std::cos(x); }, 8, 1, none);
            }
            cmpc("sinh", xs::sinh(va), [](CL x, CL, CL, ld) { return std::sinh(x); }, 8, 1, none);
            cmpc("cosh", xs::cosh(va), [](CL x, CL, CL, ld) { return std::cosh(x); }, 8, 1, none);
            cmpc("tan", xs::tan(va), [](CL x, CL, CL, ld) { return (fabsl(x.real()) > 20 || fabsl(x.imag()) > 20) ? CL(NAN, NAN) : std::tan(x); }, 32, 1,
                 [](CL x, CL) { return fabsl(cosl(2 * x.real()) + coshl(2 * x.imag())) < 0.03125L ? "tan_near_pole" : "unclassified"; });
            cmpc("tanh", xs::tanh(va), [](CL x, CL, CL, ld) { return (fabsl(x.real()) > 20 || fabsl(x.imag()) > 20) ? CL(NAN, NAN) : std::tanh(x); }, 32, 1,
                 [](CL x, CL) { return fabsl(coshl(2 * x.real()) + cosl(2 * x.imag())) < 0.03125L ? "tanh_near_pole" : "unclassified"; });
            // pow with a real exponent, on the conditioned sub-domain |r| * |Log z| <= 8
            cmpc("pow_real_exponent", xs::pow(va, vr), [](CL x, CL, CL, ld r) { return (x == CL(0) || fabsl(r) * std::abs(std::log(x)) > 8) ? CL(NAN, NAN) : std::pow(x, r); }, 32, 1, none);
        }
        if (it % 8 == 1)
        {
            // operands next to the poles of tan ((2k+1) pi/2 on the real axis) and of tanh (i times that), at distances 2^-1 ...
            // 2^-(mantissa-4) on either side, on and off the axis: the closed formula sin 2x / (cos 2x + cosh 2y) cancels there
            C sa[N], ta[N], ha[N];
            int sca[N];
            memcpy(sa, a, sizeof a);
            memcpy(sca, ca, sizeof ca);
            for (size_t i = 0; i < N; ++i)
            {
                int k = (int)(rng.next() % 12) - 6; // poles up to 11 pi/2 = 17.3
                T pole = (T)((2 * k + 1) * 1.57079632679489661923L);
                T delta = (T)std::ldexp(1.0 + (double)(rng.next() % 1024) / 1024.0, -1 - (int)(rng.next() % (std::numeric_limits<T>::digits - 4)));
                if (rng.next() & 1)
                    delta = -delta;
                T off = (rng.next() % 3 == 0) ? (T)0 : (T)std::ldexp((rng.next() & 1) ? 1.0 : -1.0, -1 - (int)(rng.next() % (std::numeric_limits<T>::digits - 4)));
                if (rng.next() % 16 == 0)
                    off = (T)-0.0;
                ta[i] = C((T)(pole + delta), off);
                ha[i] = C(off, (T)(pole + delta));
                ca[i] = 0;
            }
            auto pole_class = [](CL x, CL) -> const char*
            {
                // distance of the real part (tan) / imaginary part (tanh) from the nearest odd multiple of pi/2
                auto dist = [](ld v)
                { ld q = v / 3.14159265358979323846264338327950288L - 0.5L; return fabsl(q - roundl(q)) * 3.14159265358979323846264338327950288L; };
                ld d = std::min(dist(x.real()), dist(x.imag()));
                return (sizeof(T) == 8 && d < ldexpl(1.0L, -26)) ? "pole_within_2^-26_double_trig_reduction" : "unclassified";
            };
            memcpy(a, ta, sizeof a);
            mark_case("complex_tan_near_pole", tname<T>(), a, sizeof a);
            cmpc("tan", xs::tan(B::load_unaligned(a)), [](CL x, CL, CL, ld) { return std::tan(x); }, 32, 1, pole_class);
            memcpy(a, ha, sizeof a);
            mark_case("complex_tanh_near_pole", tname<T>(), a, sizeof a);
            cmpc("tanh", xs::tanh(B::load_unaligned(a)), [](CL x, CL, CL, ld) { return std::tanh(x); }, 32, 1, pole_class);
            memcpy(a, sa, sizeof a);
            memcpy(ca, sca, sizeof ca);
        }
        if (it % 4 == 2)
        {
            // wide moduli: the whole exponent range of the element type, and exact zeros.  The property restricts the
            // arithmetic to "no intermediate overflow" but puts no magnitude restriction on abs / arg / log / sqrt / pow;
            // for the division only the divisor is made small (a small divisor overflows nothing; it must not underflow
            // to a division by zero either).
            const int emax = std::numeric_limits<T>::max_exponent - 3;
            C wa[N], wd[N];
            int wca[N];
            for (size_t i = 0; i < N; ++i)
            {
                wa[i] = Gen<T>::get(rng, emax, wca[i]);
                int dummy;
                C d = Gen<T>::get(rng, emax / 2, dummy);
                // divisor: modulus in [2^-emax, 2^0]
                wd[i] = C((T)std::ldexp((double)d.real(), -emax / 2), (T)std::ldexp((double)d.imag(), -emax / 2));
                if (rng.next() % 16 == 0)
                    wa[i] = C((rng.next() & 1) ? (T)0.0 : (T)-0.0, (rng.next() & 1) ? (T)0.0 : (T)-0.0);
                if (rng.next() % 8 == 0)
                { // moduli in the subnormal range of the element type ("finite operands": denormal components are finite)
                    C d = Gen<T>::get(rng, 1, wca[i]);
                    int sh = std::numeric_limits<T>::min_exponent - 2 - (int)(rng.next() % (std::numeric_limits<T>::digits - 3));
                    wa[i] = C((T)std::ldexp((double)d.real(), sh), (T)std::ldexp((double)d.imag(), sh));
                }
            }
            C sa[N];
            int sca[N], scb[N];
            memcpy(sa, a, sizeof a);
            memcpy(sca, ca, sizeof ca);
            memcpy(scb, cb, sizeof cb);
            C sb[N];
            memcpy(sb, b, sizeof b);
            // the comparison lambdas read a[], b[], ca[], cb[]
            memcpy(a, wa, sizeof a);
            memcpy(ca, wca, sizeof ca);
            mark_case("complex_wide_moduli", tname<T>(), a, sizeof a);
            B wv = B::load_unaligned(a);
            auto wide = [](CL x, CL) -> const char*
            {
                // named class of the open finding about extreme moduli (first match wins)
                ld m = std::abs(x);
                const int half = std::numeric_limits<T>::max_exponent / 2;
                if (m != 0 && m < ldexpl(1.0L, std::numeric_limits<T>::min_exponent + 1))
                    return "modulus_in_subnormal_range";
                return (m != 0 && (m >= ldexpl(1.0L, half - 14) || m < ldexpl(1.0L, -(half - 14)))) ? "modulus_outside_middle_of_exponent_range" : (m == 0 ? "zero_operand" : "unclassified");
            };
            cmpr("abs", xs::abs(wv), [](CL x) { return std::abs(x); }, 32, false);
            cmpr("arg", xs::arg(wv), [](CL x) { return std::arg(x); }, 32, false);
            cmpc("log", xs::log(wv), [](CL x, CL, CL, ld) { return std::log(x); }, 32, 1, wide);
            cmpc("log2", xs::log2(wv), [](CL x, CL, CL, ld) { return std::log(x) / logl(2.0L); }, 32, 1, wide);
            cmpc("log10", xs::log10(wv), [](CL x, CL, CL, ld) { return std::log10(x); }, 32, 1, wide);
            cmpc("sqrt", xs::sqrt(wv), [](CL x, CL, CL, ld) { return std::sqrt(x); }, 8, 1,
                 [&](CL x, CL y) { return (x.real() < 0 && x.imag() == 0 && std::signbit((double)x.imag())) ? "sqrt_negative_real_axis_minus_zero_imag" : wide(x, y); });
            cmpc("pow_real_exponent", xs::pow(wv, vr), [](CL x, CL, CL, ld r) { return (x == CL(0) || fabsl(r) * std::abs(std::log(x)) > 8) ? CL(NAN, NAN) : std::pow(x, r); }, 32, 1, wide);
            cmpc("polar", xs::polar(xs::abs(wv), xs::arg(wv)), [](CL x, CL, CL, ld) { return x; }, 32, 1, wide);
            // division by a small divisor: numerator of moderate size (the saved operand), divisor wd
            memcpy(a, sa, sizeof a);
            memcpy(ca, sca, sizeof ca);
            memcpy(b, wd, sizeof b);
            B dv = B::load_unaligned(b);
            auto small_div = [](CL, CL y) -> const char*
            {
                const int half = std::numeric_limits<T>::max_exponent / 2;
                return std::abs(y) < ldexpl(1.0L, -(half - 14)) ? "divisor_modulus_squared_underflows" : "unclassified";
            };
            cmpc("div", va / dv, [](CL x, CL y, CL, ld) { return y == CL(0) ? CL(NAN, NAN) : x / y; }, 8, 0, small_div);
            cmpc("real_batch_div", vr / dv, [](CL, CL y, CL, ld r) { return y == CL(0) ? CL(NAN, NAN) : CL(r) / y; }, 8, 0, small_div);
            // small dividend AND small divisor: the quotient is an ordinary number although the products c*a, d*b of the textbook
            // formula underflow (the property excludes intermediate overflow, not underflow).  Dividend modulus in [2^-emax, 1].
            {
                C sd[N];
                for (size_t i = 0; i < N; ++i)
                {
                    int dummy;
                    C d = Gen<T>::get(rng, emax / 2, dummy);
                    sd[i] = C((T)std::ldexp((double)d.real(), -emax / 2), (T)std::ldexp((double)d.imag(), -emax / 2));
                }
                if (it == 2)
                { // fixed probe of the open finding, so that it is observed whatever the seed: (2^-120 + 0i) / (2^-33 + 0i) for float, scaled for double
                    const int q = std::numeric_limits<T>::max_exponent / 16; // 8 / 64
                    sd[0] = C((T)std::ldexp(1.0, -15 * q), (T)0);
                    b[0] = C((T)std::ldexp(1.0, -4 * q - 1), (T)0);
                    sd[N - 1] = C((T)std::ldexp(1.5, -14 * q), (T)std::ldexp(1.25, -14 * q));
                    b[N - 1] = C((T)std::ldexp(1.0, -5 * q), (T)std::ldexp(-3.0, -5 * q));
                }
                memcpy(a, sd, sizeof a);
                mark_case("complex_small_dividend_small_divisor", tname<T>(), a, sizeof a);
                B sv = B::load_unaligned(a), dv2 = B::load_unaligned(b);
                auto small_both = [](CL x, CL y) -> const char*
                {
                    return std::abs(x) * std::abs(y) < ldexpl(1.0L, std::numeric_limits<T>::min_exponent + 8) ? "dividend_times_divisor_underflows" : "unclassified";
                };
                cmpc("div", sv / dv2, [](CL x, CL y, CL, ld) { return y == CL(0) ? CL(NAN, NAN) : x / y; }, 8, 0, small_both);
                B sq = sv;
                sq /= dv2;
                cmpc("div_assign", sq, [](CL x, CL y, CL, ld) { return y == CL(0) ? CL(NAN, NAN) : x / y; }, 8, 0, small_both);
                memcpy(a, sa, sizeof a);
            }
            memcpy(b, sb, sizeof b);
            memcpy(cb, scb, sizeof cb);
        }
        if (it % 64 == 0)
        {
            // not claimed (DESIGN.md 5.1): called under the crash / hang monitors only
            mark_case("complex_unclaimed", tname<T>(), a, sizeof a);
            volatile T sink = 0;
            sink = sink + xs::asin(va).real().get(0) + xs::acos(va).real().get(0) + xs::atan(va).real().get(0) + xs::asinh(va).real().get(0) + xs::acosh(va).real().get(0) + xs::atanh(va).real().get(0) + xs::log1p(va).real().get(0);
            (void)sink;
        }
    }
}

// ---------------------------------------------------------------- data movement and select on complex batches
// (reported under C05 / C03: a complex lane is one element; real and imaginary part must travel together)
template <class T>
struct CplxMove
{
    using C = std::complex<T>;
    using B = xs::batch<C, ARCH>;
    using RB = xs::batch<T, ARCH>;
    using IT = xs::as_unsigned_integer_t<T>;
    using IB = xs::batch<IT, ARCH>;
    static constexpr size_t N = B::size;
    alignas(64) T re[N], im[N], ore[N], oim[N];
    Rng rng;
    explicit CplxMove(uint64_t seed)
        : rng(mix(seed, 505 + sizeof(T)))
    {
    }
    void fresh()
    {
        // pairwise distinct, non-NaN bit patterns: a wrong source lane (or a real part paired with the wrong imaginary part) cannot collide
        for (size_t i = 0; i < N; ++i)
        {
            re[i] = (T)(1000 + 16 * (long)i) + (T)(rng.next() % 1024) / (T)1024;
            im[i] = -(T)(5000 + 16 * (long)i) - (T)(rng.next() % 1024) / (T)1024;
        }
    }
    B in() const { return B(RB::load_aligned(re), RB::load_aligned(im)); }
    // expect out[i] == x[map[i]]
    void expect(OpStat& st, const B& r, const size_t* map, const std::string& what)
    {
        r.real().store_aligned(ore);
        r.imag().store_aligned(oim);
        for (size_t i = 0; i < N; ++i)
        {
            st.evals++;
            st.cell((unsigned)((strhash(what.c_str()) & 0xffff) << 6 | i));
            if (!same_bits(ore[i], re[map[i]]) || !same_bits(oim[i], im[map[i]]))
            {
                viol(st, "unclassified", "{\"what\":" + jstr(what) + ",\"lane\":" + std::to_string(i) + ",\"expected_source_lane\":" + std::to_string(map[i]) + ",\"re_in\":" + hexarr(re, N) + ",\"im_in\":" + hexarr(im, N) + ",\"re_out\":" + hexarr(ore, N) + ",\"im_out\":" + hexarr(oim, N) + "}");
                break;
            }
        }
    }
    template <size_t K>
    void rot_one(OpStat& sl, OpStat& sr)
    {
        size_t map[N];
        fresh();
        if (sl.on)
        {
            for (size_t i = 0; i < N; ++i)
                map[i] = (i + K) % N;
            mark_case("complex_rotate_left", tname<T>(), re, sizeof re);
            expect(sl, xs::rotate_left<K>(in()), map, "rotate_left<" + std::to_string(K) + ">");
        }
        if (sr.on)
        {
            for (size_t i = 0; i < N; ++i)
                map[i] = (i + N - K % N) % N;
            mark_case("complex_rotate_right", tname<T>(), re, sizeof re);
            expect(sr, xs::rotate_right<K>(in()), map, "rotate_right<" + std::to_string(K) + ">");
        }
    }
    template <size_t... Ks>
    void rot_all(OpStat& sl, OpStat& sr, std::index_sequence<Ks...>)
    {
        int dummy[] = { (rot_one<Ks>(sl, sr), 0)... };
        (void)dummy;
    }
    // constant masks from a generator family F (0 reverse, 1 rotate by one, 2 broadcast last, 3 swap pairs, 4.. pseudo-random)
    template <int F>
    struct Gen
    {
        static constexpr IT get(size_t i, size_t n)
        {
            return F == 0 ? (IT)(n - 1 - i) : F == 1 ? (IT)((i + 1) % n) : F == 2 ? (IT)(n - 1) : F == 3 ? (IT)(i ^ 1)
                                                                                                          : (IT)(((i + 1) * (2654435761u + 40503u * (unsigned)F) >> 7) % n);
        }
    };
    template <int F>
    void swz_const(OpStat& st)
    {
        size_t map[N];
        for (size_t i = 0; i < N; ++i)
            map[i] = (size_t)Gen<F>::get(i, N);
        fresh();
        mark_case("complex_swizzle_constant", tname<T>(), re, sizeof re);
        expect(st, xs::swizzle(in(), xs::make_batch_constant<IT, Gen<F>, ARCH>()), map, "constant mask family " + std::to_string(F));
    }
    void run()
    {
        const std::string ty = std::string("c") + tname<T>();
        OpStat& sl = reg("C05", "complex_rotate_left", ty.c_str());
        OpStat& sr = reg("C05", "complex_rotate_right", ty.c_str());
        OpStat& sc = reg("C05", "complex_swizzle_constant", ty.c_str());
        OpStat& sd = reg("C05", "complex_swizzle_runtime", ty.c_str());
        OpStat& ss = reg("C03", "complex_select", ty.c_str());
        long reps = budget(20, 400);
        for (long rep = 0; rep < reps; ++rep)
        {
            if (sl.on || sr.on)
                rot_all(sl, sr, std::make_index_sequence<N>());
            if (sc.on)
            {
                swz_const<0>(sc);
                swz_const<1>(sc);
                swz_const<2>(sc);
                swz_const<3>(sc);
                swz_const<4>(sc);
                swz_const<5>(sc);
                swz_const<6>(sc);
                swz_const<7>(sc);
            }
            if (sd.on)
                for (int k = 0; k < 16; ++k)
                {
                    alignas(64) IT idx[N];
                    size_t map[N];
                    for (size_t i = 0; i < N; ++i)
                    {
                        map[i] = k == 0 ? N - 1 - i : k == 1 ? 0 : k == 2 ? N - 1 : (size_t)(rng.next() % N);
                        idx[i] = (IT)map[i];
                    }
                    fresh();
                    mark_case("complex_swizzle_runtime", tname<T>(), idx, sizeof idx);
                    expect(sd, xs::swizzle(in(), IB::load_aligned(idx)), map, "run-time index batch");
                }
            if (ss.on)
                for (int k = 0; k < 16; ++k)
                {
                    bool c[N];
                    for (size_t i = 0; i < N; ++i)
                        c[i] = k == 0 ? false : k == 1 ? true : k < 2 + (int)N ? (int)i == k - 2 : (rng.next() & 1);
                    fresh();
                    alignas(64) T re2[N], im2[N];
                    for (size_t i = 0; i < N; ++i)
                    {
                        re2[i] = re[i] + (T)100000;
                        im2[i] = im[i] - (T)100000;
                    }
                    B a = in(), b(RB::load_aligned(re2), RB::load_aligned(im2));
                    mark_case("complex_select", tname<T>(), c, N);
                    B r = xs::select(xs::batch_bool<T, ARCH>::load_unaligned(c), a, b);
                    r.real().store_aligned(ore);
                    r.imag().store_aligned(oim);
                    for (size_t i = 0; i < N; ++i)
                    {
                        ss.evals++;
                        ss.cell((unsigned)(i << 8 | (c[i] ? 1u : 0u) << 7 | (unsigned)(k < 2 + (int)N ? k : 127)));
                        if (!same_bits(ore[i], c[i] ? re[i] : re2[i]) || !same_bits(oim[i], c[i] ? im[i] : im2[i]))
                        {
                            viol(ss, "unclassified", "{\"lane\":" + std::to_string(i) + ",\"cond\":" + hexarr(c, N) + ",\"re_out\":" + hexarr(ore, N) + ",\"im_out\":" + hexarr(oim, N) + "}");
                            break;
                        }
                    }
                }
        }
    }
};

void vh::unit_main()
{
    CplxMove<float>(ctx().seed).run();
    CplxMove<double>(ctx().seed).run();
    if (ctx().prop && (strcmp(ctx().prop, "C05") == 0 || strcmp(ctx().prop, "C03") == 0))
        return; // only the monitors above report under these properties
    run_type<float>(ctx().seed);
    run_type<double>(ctx().seed);
}
VH_MAIN()
