// C07 integer bitwise / shift / rotate (model on the unsigned image), plus the C13 monitor.
#include "../common/vcheck.hpp"
using namespace vh;

template <class T>
struct M
{
    using U = typename std::make_unsigned<T>::type;
    static constexpr int BITS = sizeof(T) * 8;
    static U u(T v)
    {
        U x;
        memcpy(&x, &v, sizeof x);
        return x;
    }
    static T s(U x)
    {
        T v;
        memcpy(&v, &x, sizeof x);
        return v;
    }
    static T shl(T v, int n) { return s((U)((U)(u(v)) << n)); }
    static T shr(T v, int n)
    {
        if (std::is_signed<T>::value)
            return (T)((__int128)v >> n); // arithmetic
        return s((U)(u(v) >> n));
    }
    static T rotl(T v, int n)
    {
        U x = u(v);
        return s((U)((U)(x << n) | (n ? (U)(x >> (BITS - n)) : (U)0)));
    }
    static T rotr(T v, int n)
    {
        U x = u(v);
        return s((U)((U)(x >> n) | (n ? (U)(x << (BITS - n)) : (U)0)));
    }
};

template <class T>
static const char* cls_i(T a, T, T)
{
    return a < 0 ? "negative_value" : "unclassified";
}

#define LAM3(expr) [](B va, B vb, B vc) { (void)va; (void)vb; (void)vc; return (expr); }
#define REF3(expr) [](T x, T y, T z) { (void)x; (void)y; (void)z; return (expr); }
#define EQ [](T g, T e) { return g == e; }
#define CV(op, ar, expr, refexpr) \
    check_val<T, T>(VH_ST("C07", op), VH_ST("C13", op), ar, in, LAM3(expr), REF3((T)(refexpr)), REF3(true), EQ, cls_i<T>, it)
// rotations: the input class is the signedness of the element type (known finding F2 covers every signed type)
template <class T>
static const char* cls_rot(T, T, T)
{
    return std::is_signed<T>::value ? "signed_element_type" : "unclassified";
}
#define CVR(op, ar, expr, refexpr) \
    check_val<T, T>(VH_ST("C07", op), VH_ST("C13", op), ar, in, LAM3(expr), REF3((T)(refexpr)), REF3(true), EQ, cls_rot<T>, it)

// in.c holds per-lane counts in [0,BITS)
template <class T>
static void lane_ops(const Ops<T>& in, long it)
{
    using B = xs::batch<T, ARCH>;
    using MM = M<T>;
    CV("and", 2, va & vb, MM::s(MM::u(x) & MM::u(y)));
    CV("or", 2, va | vb, MM::s(MM::u(x) | MM::u(y)));
    CV("xor", 2, va ^ vb, MM::s(MM::u(x) ^ MM::u(y)));
    CV("not", 1, ~va, MM::s((typename MM::U) ~MM::u(x)));
    CV("andnot", 2, xs::bitwise_andnot(va, vb), MM::s(MM::u(x) & (typename MM::U) ~MM::u(y)));
    CV("xs_bitwise_and", 2, xs::bitwise_and(va, vb), MM::s(MM::u(x) & MM::u(y)));
    CV("xs_bitwise_or", 2, xs::bitwise_or(va, vb), MM::s(MM::u(x) | MM::u(y)));
    CV("xs_bitwise_xor", 2, xs::bitwise_xor(va, vb), MM::s(MM::u(x) ^ MM::u(y)));
    CV("xs_bitwise_not", 1, xs::bitwise_not(va), MM::s((typename MM::U) ~MM::u(x)));
    CV("shl_lanes", 3, va << vc, MM::shl(x, (int)z));
    CV("shr_lanes", 3, va >> vc, MM::shr(x, (int)z));
    CV("xs_lshift_lanes", 3, xs::bitwise_lshift(va, vc), MM::shl(x, (int)z));
    CV("xs_rshift_lanes", 3, xs::bitwise_rshift(va, vc), MM::shr(x, (int)z));
    CVR("rotl_lanes", 3, xs::rotl(va, vc), MM::rotl(x, (int)z));
    CVR("rotr_lanes", 3, xs::rotr(va, vc), MM::rotr(x, (int)z));
}

// scalar count k applied to all lanes
template <class T>
static void count_ops(const Ops<T>& in, int k, long it)
{
    using B = xs::batch<T, ARCH>;
    using MM = M<T>;
    constexpr size_t N = B::size;
    if (!VH_ST("C07", "shl").on && !VH_ST("C13", "shl").on && !VH_ST("C07", "rotl").on && !VH_ST("C07", "shr").on && !VH_ST("C07", "rotr").on)
        return;
    Ops<T> d = in;
    for (size_t i = 0; i < N; ++i)
    {
        d.c[i] = (T)k;
        d.cc[i] = k & 15;
    }
    {
        const Ops<T>& in = d;
        // the count travels in lane 0 of vc only to reach the lambda; the kernel receives a scalar int
        CV("shl", 3, va << (int)vc.get(0), MM::shl(x, (int)z));
        CV("shr", 3, va >> (int)vc.get(0), MM::shr(x, (int)z));
        CV("xs_lshift", 3, xs::bitwise_lshift(va, (int)vc.get(0)), MM::shl(x, (int)z));
        CV("xs_rshift", 3, xs::bitwise_rshift(va, (int)vc.get(0)), MM::shr(x, (int)z));
        CVR("rotl", 3, xs::rotl(va, (int)vc.get(0)), MM::rotl(x, (int)z));
        CVR("rotr", 3, xs::rotr(va, (int)vc.get(0)), MM::rotr(x, (int)z));
    }
}

template <class T>
static void run_type(uint64_t seed)
{
    using B = xs::batch<T, ARCH>;
    constexpr size_t N = B::size;
    constexpr int BITS = sizeof(T) * 8;
    Rng rng(mix(seed, strhash(tname<T>())));
    Ops<T> in;
    long it = 0;
    long iters = budget(3000, 60000);
    for (long k = 0; k < iters; ++k, ++it)
    {
        in.fill_hostile(rng);
        for (size_t i = 0; i < N; ++i)
        {
            int n = (int)rng.below(BITS);
            if (rng.below(8) == 0)
                n = rng.below(2) ? 0 : BITS - 1;
            in.c[i] = (T)n;
            in.cc[i] = n & 15;
        }
        lane_ops<T>(in, it);
        count_ops<T>(in, (int)(k % BITS), it);
    }
    // every scalar count on a fresh hostile batch, several times
    for (int rep = 0; rep < 16; ++rep)
        for (int k = 0; k < BITS; ++k)
        {
            in.fill_hostile(rng);
            count_ops<T>(in, k, it++);
        }
    // exhaustive value x count for 8- and 16-bit lanes
    if (sizeof(T) <= 2)
    {
        size_t fill = 0;
        uint64_t n = 0;
        for (uint32_t v = 0; v < (1u << BITS); ++v)
        {
            typename std::make_unsigned<T>::type uv = (typename std::make_unsigned<T>::type)v;
            memcpy(&in.a[fill], &uv, sizeof(T));
            in.b[fill] = (T)(v * 40503u);
            in.ca[fill] = in.cb[fill] = 14;
            if (++fill == N)
            {
                fill = 0;
                for (int k = 0; k < BITS; ++k)
                {
                    count_ops<T>(in, k, it);
                    for (size_t i = 0; i < N; ++i)
                    {
                        in.c[i] = (T)((k + (int)i) % BITS);
                        in.cc[i] = 14;
                    }
                    lane_ops<T>(in, it++);
                    n += N;
                }
            }
        }
        info(std::string("exhaustive_value_x_count_") + tname<T>(), std::to_string(n));
    }
}

void vh::unit_main()
{
    uint64_t s = ctx().seed;
    run_type<int8_t>(s);
    run_type<uint8_t>(s);
    run_type<int16_t>(s);
    run_type<uint16_t>(s);
    run_type<int32_t>(s);
    run_type<uint32_t>(s);
    run_type<int64_t>(s);
    run_type<uint64_t>(s);
}
VH_MAIN()
