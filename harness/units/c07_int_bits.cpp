// C07 integer bitwise / shift / rotate (model on the unsigned image), plus the C13 monitor.
#include "../common/vcheck.hpp"
using namespace vh;

template <class T>
struct M
{
    using U = typename std::make_unsigned<T>::type;
    static constexpr int BITS = sizeof(T) * 8;
    static U u(T v)
    {
        U x;
        memcpy(&x, &v, sizeof x);
        return x;
    }
    static T s(U x)
    {
        T v;
        memcpy(&v, &x, sizeof x);
        return v;
    }
    static T shl(T v, int n) { return s((U)((U)(u(v)) << n)); }
    static T shr(T v, int n)
    {
        if (std::is_signed<T>::value)
            return (T)((__int128)v >> n); // arithmetic
        return s((U)(u(v) >> n));
    }
    static T rotl(T v, int n)
    {
        U x = u(v);
        return s((U)((U)(x << n) | (n ? (U)(x >> (BITS - n)) : (U)0)));
    }
    static T rotr(T v, int n)
    {
        U x = u(v);
        return s((U)((U)(x >> n) | (n ? (U)(x << (BITS - n)) : (U)0)));
    }
    // what the library computes for SIGNED element types (open finding F2, pinned by the repository's own test_rotr):
    // a rotation over numeric_limits<T>::digits = BITS-1 positions with an arithmetic right shift.  The kernels are
    // additionally held to this formula, so that a change of the signed behaviour that is not the repair is still seen.
    static T pinned_rotl(T v, int n) { return s((U)(u(shl(v, n)) | u(shr(v, n ? (BITS - 1) - n : 0)))); }
    static T pinned_rotr(T v, int n) { return s((U)(u(shr(v, n)) | u(shl(v, n ? (BITS - 1) - n : 0)))); }
};

template <class T>
static const char* cls_i(T a, T, T)
{
    return a < 0 ? "negative_value" : "unclassified";
}

#define LAM3(expr) [](B va, B vb, B vc) { (void)va; (void)vb; (void)vc; return (expr); }
#define REF3(expr) [](T x, T y, T z) { (void)x; (void)y; (void)z; return (expr); }
#define EQ [](T g, T e) { return g == e; }
#define CV(op, ar, expr, refexpr) \
    check_val<T, T>(VH_ST("C07", op), VH_ST("C13", op), ar, in, LAM3(expr), REF3((T)(refexpr)), REF3(true), EQ, cls_i<T>, it)
// rotations: the input class is the signedness of the element type (known finding F2 covers every signed type)
template <class T>
static const char* cls_rot(T, T, T)
{
    return std::is_signed<T>::value ? "signed_element_type" : "unclassified";
}
#define CVR(op, ar, expr, refexpr) \
    check_val<T, T>(VH_ST("C07", op), VH_ST("C13", op), ar, in, LAM3(expr), REF3((T)(refexpr)), REF3(true), EQ, cls_rot<T>, it)

// signed element types: every lane must be EITHER the correct rotation OR the pinned formula of finding F2
// (the correct rotation is never an alarm, so a repaired library stays silent here)
template <class T>
static void rot_signed(const Ops<T>& in, bool scalar_count)
{
    using B = xs::batch<T, ARCH>;
    using MM = M<T>;
    constexpr size_t N = B::size;
    static OpStat& sl = reg("C07", scalar_count ? "rotl_signed_neither_rotation_nor_pinned_formula" : "rotl_lanes_signed_neither_rotation_nor_pinned_formula", tname<T>());
    static OpStat& sr = reg("C07", scalar_count ? "rotr_signed_neither_rotation_nor_pinned_formula" : "rotr_lanes_signed_neither_rotation_nor_pinned_formula", tname<T>());
    if (!sl.on && !sr.on)
        return;
    alignas(64) T ol[N], orr[N];
    B va = B::load_aligned(in.a), vc = B::load_aligned(in.c);
    mark_case("rot_signed", tname<T>(), &in, 3 * sizeof(in.a));
    if (scalar_count)
    {
        xs::rotl(va, (int)in.c[0]).store_aligned(ol);
        xs::rotr(va, (int)in.c[0]).store_aligned(orr);
    }
    else
    {
        xs::rotl(va, vc).store_aligned(ol);
        xs::rotr(va, vc).store_aligned(orr);
    }
    for (size_t i = 0; i < N; ++i)
    {
        const int n = (int)(scalar_count ? in.c[0] : in.c[i]);
        const T x = in.a[i];
        sl.evals++;
        sr.evals++;
        sl.cell((unsigned)(n << 5 | in.ca[i]));
        sr.cell((unsigned)(n << 5 | in.ca[i]));
        if (sl.on && ol[i] != MM::rotl(x, n) && ol[i] != MM::pinned_rotl(x, n))
            viol(sl, "unclassified", "{\"x\":\"" + hexv(x) + "\",\"n\":" + std::to_string(n) + ",\"got\":\"" + hexv(ol[i]) + "\",\"rotation\":\"" + hexv(MM::rotl(x, n)) + "\",\"pinned_formula\":\"" + hexv(MM::pinned_rotl(x, n)) + "\",\"lane\":" + std::to_string(i) + "}");
        if (sr.on && orr[i] != MM::rotr(x, n) && orr[i] != MM::pinned_rotr(x, n))
            viol(sr, "unclassified", "{\"x\":\"" + hexv(x) + "\",\"n\":" + std::to_string(n) + ",\"got\":\"" + hexv(orr[i]) + "\",\"rotation\":\"" + hexv(MM::rotr(x, n)) + "\",\"pinned_formula\":\"" + hexv(MM::pinned_rotr(x, n)) + "\",\"lane\":" + std::to_string(i) + "}");
    }
}

// in.c holds per-lane counts in [0,BITS)
template <class T>
static void lane_ops(const Ops<T>& in, long it)
{
    using B = xs::batch<T, ARCH>;
    using MM = M<T>;
    CV("and", 2, va & vb, MM::s(MM::u(x) & MM::u(y)));
    CV("or", 2, va | vb, MM::s(MM::u(x) | MM::u(y)));
    CV("xor", 2, va ^ vb, MM::s(MM::u(x) ^ MM::u(y)));
    CV("not", 1, ~va, MM::s((typename MM::U) ~MM::u(x)));
    CV("andnot", 2, xs::bitwise_andnot(va, vb), MM::s(MM::u(x) & (typename MM::U) ~MM::u(y)));
    CV("xs_bitwise_and", 2, xs::bitwise_and(va, vb), MM::s(MM::u(x) & MM::u(y)));
    CV("xs_bitwise_or", 2, xs::bitwise_or(va, vb), MM::s(MM::u(x) | MM::u(y)));
    CV("xs_bitwise_xor", 2, xs::bitwise_xor(va, vb), MM::s(MM::u(x) ^ MM::u(y)));
    CV("xs_bitwise_not", 1, xs::bitwise_not(va), MM::s((typename MM::U) ~MM::u(x)));
    CV("and_assign", 2, (va &= vb), MM::s(MM::u(x) & MM::u(y)));
    CV("or_assign", 2, (va |= vb), MM::s(MM::u(x) | MM::u(y)));
    CV("xor_assign", 2, (va ^= vb), MM::s(MM::u(x) ^ MM::u(y)));
    CV("shl_assign_lanes", 3, (va <<= vc), MM::shl(x, (int)z));
    CV("shr_assign_lanes", 3, (va >>= vc), MM::shr(x, (int)z));
    CV("shl_lanes", 3, va << vc, MM::shl(x, (int)z));
    CV("shr_lanes", 3, va >> vc, MM::shr(x, (int)z));
    CV("xs_lshift_lanes", 3, xs::bitwise_lshift(va, vc), MM::shl(x, (int)z));
    CV("xs_rshift_lanes", 3, xs::bitwise_rshift(va, vc), MM::shr(x, (int)z));
    CVR("rotl_lanes", 3, xs::rotl(va, vc), MM::rotl(x, (int)z));
    CVR("rotr_lanes", 3, xs::rotr(va, vc), MM::rotr(x, (int)z));
    if constexpr (std::is_signed<T>::value)
        rot_signed<T>(in, false);
}

// scalar count k applied to all lanes
template <class T>
static void count_ops(const Ops<T>& in, int k, long it)
{
    using B = xs::batch<T, ARCH>;
    using MM = M<T>;
    constexpr size_t N = B::size;
    if (!VH_ST("C07", "shl").on && !VH_ST("C13", "shl").on && !VH_ST("C07", "rotl").on && !VH_ST("C07", "shr").on && !VH_ST("C07", "rotr").on)
        return;
    Ops<T> d = in;
    for (size_t i = 0; i < N; ++i)
    {
        d.c[i] = (T)k;
        d.cc[i] = k & 15;
    }
    {
        const Ops<T>& in = d;
        // the count travels in lane 0 of vc only to reach the lambda; the kernel receives a scalar int
        CV("shl", 3, va << (int)vc.get(0), MM::shl(x, (int)z));
        CV("shr", 3, va >> (int)vc.get(0), MM::shr(x, (int)z));
        CV("shl_assign", 3, (va <<= (int)vc.get(0)), MM::shl(x, (int)z));
        CV("shr_assign", 3, (va >>= (int)vc.get(0)), MM::shr(x, (int)z));
        CV("xs_lshift", 3, xs::bitwise_lshift(va, (int)vc.get(0)), MM::shl(x, (int)z));
        CV("xs_rshift", 3, xs::bitwise_rshift(va, (int)vc.get(0)), MM::shr(x, (int)z));
        CVR("rotl", 3, xs::rotl(va, (int)vc.get(0)), MM::rotl(x, (int)z));
        CVR("rotr", 3, xs::rotr(va, (int)vc.get(0)), MM::rotr(x, (int)z));
        if constexpr (std::is_signed<T>::value)
            rot_signed<T>(in, true);
    }
}

template <class T>
static void run_type(uint64_t seed)
{
    using B = xs::batch<T, ARCH>;
    constexpr size_t N = B::size;
    constexpr int BITS = sizeof(T) * 8;
    Rng rng(mix(seed, strhash(tname<T>())));
    Ops<T> in;
    long it = 0;
    long iters = budget(3000, 60000);
    for (long k = 0; k < iters; ++k, ++it)
    {
        in.fill_hostile(rng);
        for (size_t i = 0; i < N; ++i)
        {
            int n = (int)rng.below(BITS);
            if (rng.below(8) == 0)
                n = rng.below(2) ? 0 : BITS - 1;
            in.c[i] = (T)n;
            in.cc[i] = n & 15;
        }
        lane_ops<T>(in, it);
        count_ops<T>(in, (int)(k % BITS), it);
    }
    // every scalar count on a fresh hostile batch, several times
    for (int rep = 0; rep < 16; ++rep)
        for (int k = 0; k < BITS; ++k)
        {
            in.fill_hostile(rng);
            count_ops<T>(in, k, it++);
        }
    // exhaustive value x count for 8- and 16-bit lanes
    if (sizeof(T) <= 2)
    {
        size_t fill = 0;
        uint64_t n = 0;
        for (uint32_t v = 0; v < (1u << BITS); ++v)
        {
            typename std::make_unsigned<T>::type uv = (typename std::make_unsigned<T>::type)v;
            memcpy(&in.a[fill], &uv, sizeof(T));
            in.b[fill] = (T)(v * 40503u);
            in.ca[fill] = in.cb[fill] = 14;
            if (++fill == N)
            {
                fill = 0;
                for (int k = 0; k < BITS; ++k)
                {
                    count_ops<T>(in, k, it);
                    for (size_t i = 0; i < N; ++i)
                    {
                        in.c[i] = (T)((k + (int)i) % BITS);
                        in.cc[i] = 14;
                    }
                    lane_ops<T>(in, it++);
                    n += N;
                }
            }
        }
        info(std::string("exhaustive_value_x_count_") + tname<T>(), std::to_string(n));
    }
}

void vh::unit_main()
{
    uint64_t s = ctx().seed;
    run_type<int8_t>(s);
    run_type<uint8_t>(s);
    run_type<int16_t>(s);
    run_type<uint16_t>(s);
    run_type<int32_t>(s);
    run_type<uint32_t>(s);
    run_type<int64_t>(s);
    run_type<uint64_t>(s);
}
VH_MAIN()
