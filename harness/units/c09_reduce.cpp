// C09 reductions: reduce_add / reduce_max / reduce_min / haddp / reduce(f, x).
// Workloads are built around the position of the witness (one-hot addend, unique extreme in lane k).
#include "../common/vcheck.hpp"
#include "../common/accept.hpp"
using namespace vh;

struct MaxF
{
    template <class B>
    B operator()(B x, B y) const { return xs::max(x, y); }
};
struct MinF
{
    template <class B>
    B operator()(B x, B y) const { return xs::min(x, y); }
};
struct AddF
{
    template <class B>
    B operator()(B x, B y) const { return x + y; }
};
struct AndF
{
    template <class B>
    B operator()(B x, B y) const { return x & y; }
};

template <class T>
static typename std::enable_if<std::is_integral<T>::value, T>::type rv(Rng& r, int& c) { return hostile<T>(r, c); }
template <class T>
static typename std::enable_if<std::is_floating_point<T>::value, T>::type rv(Rng& r, int& c)
{
    uint64_t k = r.next();
    int sel = (int)(k % 8);
    c = sel;
    if (sel == 0)
        return 0;
    if (sel == 1)
        return (T)-0.0;
    if (sel < 5)
        return (T)((int64_t)(r.next() % 2049) - 1024);
    if (sel == 5)
        return std::ldexp((T)1, (int)(r.next() % 40) - 20);
    if (sel == 6)
        return (T)((int64_t)(r.next() % 200001) - 100000) / (T)64;
    return std::ldexp((T)((int64_t)(r.next() % 2001) - 1000), (int)(r.next() % 60) - 30);
}

template <class T, bool OK>
struct GenericReduce
{
    static void run(const T*, size_t, const char*) { }
};
template <class T>
struct GenericReduce<T, true>
{
    using B = xs::batch<T, ARCH>;
    static constexpr size_t N = B::size;
    static void run(const T* a, size_t w, const char* mode)
    {
        B va = B::load_aligned(a);
        T mx = a[0], mn = a[0];
        for (size_t i = 1; i < N; ++i)
        {
            if (a[i] > mx)
                mx = a[i];
            if (a[i] < mn)
                mn = a[i];
        }
        std::string wit = std::string("\"mode\":\"") + mode + "\",\"witness_lane\":" + std::to_string(w) + ",\"lanes\":" + hexarr(a, N);
        {
            static OpStat& st = reg("C09", "reduce_f_max", tname<T>());
            if (st.on)
            {
                mark_case("reduce_f_max", tname<T>(), a, N * sizeof(T));
                T g = xs::reduce(MaxF {}, va);
                st.evals++;
                st.cell((unsigned)w);
                if (!(g == mx))
                    viol(st, "unclassified", "{" + wit + ",\"got\":\"" + hexv(g) + "\",\"exp\":\"" + hexv(mx) + "\"}");
            }
        }
        {
            static OpStat& st = reg("C09", "reduce_f_min", tname<T>());
            if (st.on)
            {
                mark_case("reduce_f_min", tname<T>(), a, N * sizeof(T));
                T g = xs::reduce(MinF {}, va);
                st.evals++;
                st.cell((unsigned)w);
                if (!(g == mn))
                    viol(st, "unclassified", "{" + wit + ",\"got\":\"" + hexv(g) + "\",\"exp\":\"" + hexv(mn) + "\"}");
            }
        }
        intparts(a, w, wit, std::is_integral<T>());
    }
    static void intparts(const T*, size_t, const std::string&, std::false_type) { }
    static void intparts(const T* a, size_t w, const std::string& wit, std::true_type)
    {
        using U = typename std::make_unsigned<T>::type;
        B va = B::load_aligned(a);
        U s = 0, an = (U)~(U)0;
        for (size_t i = 0; i < N; ++i)
        {
            s = (U)(s + (U)a[i]);
            an = (U)(an & (U)a[i]);
        }
        {
            static OpStat& st = reg("C09", "reduce_f_add", tname<T>());
            if (st.on)
            {
                mark_case("reduce_f_add", tname<T>(), a, N * sizeof(T));
                T g = xs::reduce(AddF {}, va);
                st.evals++;
                st.cell((unsigned)w);
                if ((U)g != s)
                    viol(st, "unclassified", "{" + wit + ",\"got\":\"" + hexv(g) + "\",\"exp\":\"" + hexv(s) + "\"}");
            }
        }
        {
            static OpStat& st = reg("C09", "reduce_f_and", tname<T>());
            if (st.on)
            {
                mark_case("reduce_f_and", tname<T>(), a, N * sizeof(T));
                T g = xs::reduce(AndF {}, va);
                st.evals++;
                st.cell((unsigned)w);
                if ((U)g != an)
                    viol(st, "unclassified", "{" + wit + ",\"got\":\"" + hexv(g) + "\",\"exp\":\"" + hexv(an) + "\"}");
            }
        }
    }
};

template <class T>
static void check_batch(const T* a, size_t w, const char* mode, bool has_nan, bool extremes_only = false)
{
    using B = xs::batch<T, ARCH>;
    constexpr size_t N = B::size;
    B va = B::load_aligned(a);
    std::string wit = std::string("\"mode\":\"") + mode + "\",\"witness_lane\":" + std::to_string(w) + ",\"lanes\":" + hexarr(a, N);
    unsigned cell = (unsigned)(strhash(mode) % 61) * 64 + (unsigned)w;
    {
        static OpStat& st = reg("C09", "reduce_add", tname<T>());
        if (st.on && !extremes_only)
        {
            mark_case("reduce_add", tname<T>(), a, N * sizeof(T));
            T got = xs::reduce_add(va);
            st.evals++;
            st.cell(cell);
            if (std::is_integral<T>::value)
            {
                using U = bits_t<T>;
                unsigned __int128 s = 0;
                for (size_t i = 0; i < N; ++i)
                    s += (unsigned __int128)(U)bits(a[i]);
                if (bits(got) != (U)s)
                    viol(st, "unclassified", "{" + wit + ",\"got\":\"" + hexv(got) + "\",\"exp\":\"" + hexv((U)s) + "\"}");
            }
            else if (!has_nan)
            {
                long double s = 0, sa = 0;
                bool anyinf = false;
                for (size_t i = 0; i < N; ++i)
                {
                    s += (long double)a[i];
                    sa += std::fabs((long double)a[i]);
                    if (std::isinf((double)a[i]))
                        anyinf = true;
                }
                if (!anyinf)
                {
                    long double tol = (long double)(N - 1) * (long double)std::numeric_limits<T>::epsilon() * sa;
                    if (!(std::fabs((long double)got - s) <= tol))
                        viol(st, "unclassified", "{" + wit + ",\"got\":\"" + hexv(got) + "\",\"exact_sum\":" + std::to_string((double)s) + ",\"tol\":" + std::to_string((double)tol) + "}");
                }
            }
            if (st.want_sample())
                st.samples.push_back("{" + wit + ",\"got\":\"" + hexv(got) + "\"}");
        }
    }
    if (!has_nan)
    {
        T mx = a[0], mn = a[0];
        for (size_t i = 1; i < N; ++i)
        {
            if (a[i] > mx)
                mx = a[i];
            if (a[i] < mn)
                mn = a[i];
        }
        {
            static OpStat& st = reg("C09", "reduce_max", tname<T>());
            if (st.on)
            {
                mark_case("reduce_max", tname<T>(), a, N * sizeof(T));
                T g = xs::reduce_max(va);
                st.evals++;
                st.cell(cell);
                if (!(g == mx))
                    viol(st, "unclassified", "{" + wit + ",\"got\":\"" + hexv(g) + "\",\"exp\":\"" + hexv(mx) + "\"}");
            }
        }
        {
            static OpStat& st = reg("C09", "reduce_min", tname<T>());
            if (st.on)
            {
                mark_case("reduce_min", tname<T>(), a, N * sizeof(T));
                T g = xs::reduce_min(va);
                st.evals++;
                st.cell(cell);
                if (!(g == mn))
                    viol(st, "unclassified", "{" + wit + ",\"got\":\"" + hexv(g) + "\",\"exp\":\"" + hexv(mn) + "\"}");
            }
        }
        GenericReduce<T, has_reduce<T, ARCH>::value>::run(a, w, mode);
    }
}

template <class T>
static void run_type(uint64_t seed)
{
    using B = xs::batch<T, ARCH>;
    constexpr size_t N = B::size;
    Rng rng(mix(seed, strhash(tname<T>())));
    alignas(64) T a[N];
    int c;
    if (!has_reduce<T, ARCH>::value)
        note_na("C09", "reduce(f,x)", tname<T>(), "no constant swizzle kernel for the split_high masks on this arch/type");
    long iters = budget(4000, 100000);
    for (long it = 0; it < iters; ++it)
    {
        for (size_t i = 0; i < N; ++i)
            a[i] = rv<T>(rng, c);
        check_batch<T>(a, N, "random", false);
    }
    // floating extremes for max / min / reduce(f): +-inf, +-MAX, denormals, +-0, random bit patterns (no NaN); the sum
    // of such lanes may overflow in one association order and not in another, so reduce_add is not judged here
    if (std::is_floating_point<T>::value)
    {
        for (long it = 0; it < iters; ++it)
        {
            for (size_t i = 0; i < N; ++i)
            {
                do
                    a[i] = hostile<T>(rng, c);
                while (a[i] != a[i]);
            }
            check_batch<T>(a, N, "hostile_no_nan", false, true);
        }
        const T ext[] = { std::numeric_limits<T>::infinity(), -std::numeric_limits<T>::infinity(), std::numeric_limits<T>::max(), std::numeric_limits<T>::lowest(),
                          std::numeric_limits<T>::denorm_min(), (T)-std::numeric_limits<T>::denorm_min(), std::numeric_limits<T>::min() };
        for (size_t w = 0; w < N; ++w)
            for (T e : ext)
                for (int rep = 0; rep < 4; ++rep)
                {
                    for (size_t i = 0; i < N; ++i)
                    {
                        do
                            a[i] = rep == 0 ? (T)0 : rep == 1 ? (T)(e > 0 ? std::numeric_limits<T>::max() / 2 : std::numeric_limits<T>::lowest() / 2)
                                                              : hostile<T>(rng, c);
                        while (a[i] != a[i] || (rep >= 2 && std::isinf((double)a[i])));
                    }
                    a[w] = e;
                    check_batch<T>(a, w, "float_extreme_in_lane", false, true);
                }
    }
    // position-of-witness workloads, every lane, several background values
    const T lo = std::numeric_limits<T>::lowest(), hi = std::numeric_limits<T>::max();
    for (size_t w = 0; w < N; ++w)
        for (int rep = 0; rep < 24; ++rep)
        {
            T bg = (T)(rep % 7), big = (T)(100 + rep), small = std::is_signed<T>::value ? (T)(-100 - rep) : (T)0;
            for (size_t i = 0; i < N; ++i)
                a[i] = 0;
            a[w] = (T)(1 + rep);
            check_batch<T>(a, w, "one_hot_addend", false);
            for (size_t i = 0; i < N; ++i)
                a[i] = bg;
            a[w] = big;
            check_batch<T>(a, w, "unique_max", false);
            for (size_t i = 0; i < N; ++i)
                a[i] = (T)(bg + 1);
            a[w] = small;
            check_batch<T>(a, w, "unique_min", false);
            for (size_t i = 0; i < N; ++i)
                a[i] = rv<T>(rng, c);
            a[w] = hi;
            for (size_t i = 0; i < N; ++i)
                if (i != w && a[i] == hi)
                    a[i] = (T)1;
            if (std::is_integral<T>::value)
                check_batch<T>(a, w, "type_max_in_lane", false);
            a[w] = lo;
            for (size_t i = 0; i < N; ++i)
                if (i != w && a[i] == lo)
                    a[i] = (T)1;
            if (std::is_integral<T>::value)
                check_batch<T>(a, w, "type_min_in_lane", false);
            // all lanes pairwise distinct (a permutation): any skipped or double-counted lane changes the sum
            for (size_t i = 0; i < N; ++i)
                a[i] = (T)(((i * 7 + w * 3 + (size_t)rep) % N) * 2 + 1);
            check_batch<T>(a, w, "distinct_permutation", false);
        }
}

// haddp: lane i == exact sum of row i; rows have pairwise distinct sums and small-integer entries
template <class T>
static void run_haddp(uint64_t seed)
{
    using B = xs::batch<T, ARCH>;
    constexpr size_t N = B::size;
    static OpStat& st = reg("C09", "haddp", tname<T>());
    if (!st.on)
        return;
    Rng rng(mix(seed, 991 + sizeof(T)));
    alignas(64) T m[N][N], o[N];
    B rows[N];
    long iters = budget(3000, 60000);
    for (long it = 0; it < iters; ++it)
    {
        int mode = (int)(it % 3);
        for (size_t i = 0; i < N; ++i)
        {
            for (size_t j = 0; j < N; ++j)
                m[i][j] = mode == 0 ? (T)((int64_t)(rng.next() % 2049) - 1024) : mode == 1 ? (T)(j == (size_t)(it / 3) % N ? (T)(i + 1) : (T)0)
                                                                                             : (T)((i + 1) * 1000 + j);
            rows[i] = B::load_aligned(m[i]);
        }
        mark_case("haddp", tname<T>(), m, sizeof m > 192 ? 192 : sizeof m);
        xs::haddp(rows).store_aligned(o);
        for (size_t i = 0; i < N; ++i)
        {
            long double s = 0;
            for (size_t j = 0; j < N; ++j)
                s += (long double)m[i][j];
            st.evals++;
            st.cell((unsigned)(mode * 64 + i));
            if ((long double)o[i] != s)
                viol(st, "unclassified", "{\"mode\":" + std::to_string(mode) + ",\"row\":" + std::to_string(i) + ",\"got\":" + std::to_string((double)o[i]) + ",\"exp\":" + std::to_string((double)s) + ",\"all_got\":" + hexarr(o, N) + "}");
        }
    }
}

// reduce_add of complex batches: real parts and imaginary parts summed separately, every lane once (small integers: exact)
template <class T>
static void run_complex(uint64_t seed)
{
    using C = std::complex<T>;
    using B = xs::batch<C, ARCH>;
    constexpr size_t N = B::size;
    static OpStat& st = reg("C09", "reduce_add", std::is_same<T, float>::value ? "cf32" : "cf64");
    if (!st.on)
        return;
    Rng rng(mix(seed, 7331 + sizeof(T)));
    alignas(64) C a[N];
    long iters = budget(3000, 60000);
    for (long it = 0; it < iters + (long)(N * 8); ++it)
    {
        size_t w = N;
        int mode = 0;
        if (it >= iters)
        {
            w = (size_t)(it - iters) % N;
            mode = 1 + (int)((it - iters) / N) % 4;
        }
        for (size_t i = 0; i < N; ++i)
        {
            T re = mode == 0 ? (T)((int64_t)(rng.next() % 4097) - 2048) : mode == 3 ? (T)(i + 1) : (T)0;
            T im = mode == 0 ? (T)((int64_t)(rng.next() % 4097) - 2048) : mode == 4 ? (T)(2 * i + 1) : (T)0;
            a[i] = C(re, im);
        }
        if (mode == 1)
            a[w] = C((T)(3 + w), 0); // one-hot real addend
        if (mode == 2)
            a[w] = C(0, (T)(5 + w)); // one-hot imaginary addend
        if (mode == 3)
            a[w] = C(a[w].real(), (T)1000); // distinct reals everywhere, one imaginary part
        if (mode == 4)
            a[w] = C((T)-1000, a[w].imag());
        B va = B::load_aligned(a);
        mark_case("reduce_add_complex", tname<T>(), a, sizeof a > 192 ? 192 : sizeof a);
        C got = xs::reduce_add(va);
        long double sr = 0, si = 0;
        for (size_t i = 0; i < N; ++i)
        {
            sr += (long double)a[i].real();
            si += (long double)a[i].imag();
        }
        st.evals++;
        st.cell((unsigned)(mode * 64 + (w % 64)));
        if ((long double)got.real() != sr || (long double)got.imag() != si)
            viol(st, "unclassified", "{\"mode\":" + std::to_string(mode) + ",\"witness_lane\":" + std::to_string(w) + ",\"got_re\":" + std::to_string((double)got.real()) + ",\"got_im\":" + std::to_string((double)got.imag()) + ",\"exp_re\":" + std::to_string((double)sr) + ",\"exp_im\":" + std::to_string((double)si) + "}");
        if (st.want_sample())
            st.samples.push_back("{\"mode\":" + std::to_string(mode) + ",\"witness_lane\":" + std::to_string(w) + ",\"got_re\":" + std::to_string((double)got.real()) + ",\"got_im\":" + std::to_string((double)got.imag()) + "}");
    }
}

void vh::unit_main()
{
    uint64_t s = ctx().seed;
    run_type<int8_t>(s);
    run_type<uint8_t>(s);
    run_type<int16_t>(s);
    run_type<uint16_t>(s);
    run_type<int32_t>(s);
    run_type<uint32_t>(s);
    run_type<int64_t>(s);
    run_type<uint64_t>(s);
    run_type<float>(s);
    run_type<double>(s);
    run_haddp<float>(s);
    run_haddp<double>(s);
    run_complex<float>(s);
    run_complex<double>(s);
}
VH_MAIN()
