// C05 data movement: swizzle (constant and run-time masks), shuffle, zip, slide, rotate,
// extract_pair, insert/get, transpose, compress/expand.  Oracle: index-level permutation model
// on lanes filled with distinct random bit patterns, compared with memcmp.
// Compile-time masks are template instantiations: the family below is fixed at build time
// (VH_MASKS_FULL adds the exhaustive <=4-lane sweeps and more pseudo-random masks).
#include "../common/shufgen.hpp"
#include "../common/vcheck.hpp"
#include "../common/accept.hpp"
using namespace vh;

constexpr uint64_t cmix(uint64_t z)
{
    z = (z ^ (z >> 30)) * 0xbf58476d1ce4e5b9ull;
    z = (z ^ (z >> 27)) * 0x94d049bb133111ebull;
    return z ^ (z >> 31);
}
// ---- swizzle index generators (size_t get(i, n))
template <unsigned S>
struct GRand
{
    static constexpr size_t get(size_t i, size_t n) { return cmix(S * 1000003ull + i * 7919ull + 1) % n; }
};
struct GId
{
    static constexpr size_t get(size_t i, size_t) { return i; }
};
struct GRev
{
    static constexpr size_t get(size_t i, size_t n) { return n - 1 - i; }
};
template <unsigned K>
struct GBc
{
    static constexpr size_t get(size_t, size_t n) { return K % n; }
};
struct GBcLast
{
    static constexpr size_t get(size_t, size_t n) { return n - 1; }
};
template <unsigned K>
struct GRot
{
    static constexpr size_t get(size_t i, size_t n) { return (i + K) % n; }
};
struct GSwapPairs
{
    static constexpr size_t get(size_t i, size_t) { return i ^ 1; }
};
struct GSwapHalves
{
    static constexpr size_t get(size_t i, size_t n) { return (i + n / 2) % n; }
};
struct GDupEven
{
    static constexpr size_t get(size_t i, size_t) { return i & ~size_t(1); }
};
struct GDupOdd
{
    static constexpr size_t get(size_t i, size_t) { return i | 1; }
};
struct GInLaneRev
{
    static constexpr size_t get(size_t i, size_t n) { return n >= 4 ? (i & ~size_t(3)) | (3 - (i & 3)) : n - 1 - i; }
};
// in-lane masks whose pattern differs from one group of G elements to the next (G = 4: 128-bit lanes of 32-bit
// elements; G = 2: of 64-bit elements): the class of masks an "in-lane permute" fast path must tell apart from
// the same pattern repeated in every lane
template <unsigned S, unsigned G>
struct GInLaneMix
{
    static constexpr size_t get(size_t i, size_t n) { return n >= 2 * G ? ((i / G) * G + cmix(S * 131 + (i / G) * 17 + (i % G) * 5 + 1) % G) : i; }
};
using GMix4a = GInLaneMix<1, 4>;
using GMix4b = GInLaneMix<2, 4>;
using GMix4c = GInLaneMix<3, 4>;
using GMix2a = GInLaneMix<1, 2>;
using GMix2b = GInLaneMix<2, 2>;
using GMix8a = GInLaneMix<1, 8>;
struct GCrossLane // element i of the other half, reversed inside the half
{
    static constexpr size_t get(size_t i, size_t n) { return n >= 4 ? ((i < n / 2) ? n - 1 - i : n / 2 - 1 - (i - n / 2)) : n - 1 - i; }
};
struct GPairs // pairs of contiguous indices (2k, 2k+1) in scrambled order
{
    static constexpr size_t get(size_t i, size_t n) { return n >= 4 ? (((cmix(i / 2 + 11) % (n / 2)) * 2) + (i & 1)) : i; }
};
struct GLowHalfOnly
{
    static constexpr size_t get(size_t i, size_t n) { return n >= 2 ? cmix(i + 3) % (n / 2) : 0; }
};
struct GHighHalfOnly
{
    static constexpr size_t get(size_t i, size_t n) { return n >= 2 ? n / 2 + cmix(i + 5) % (n / 2) : 0; }
};
// the masks the generic reduce() emits: split_high at every level, and its last step (1,1,0,1,0,1,...)
template <unsigned D>
struct GSplitHigh
{
    static constexpr size_t get(size_t i, size_t n) { return (n >> D) >= 1 ? (i >= (n >> D) ? (i % 2) : i + (n >> D)) : i; }
};
struct GReduceLast
{
    static constexpr size_t get(size_t i, size_t) { return i == 0 ? 1 : (i & 1); }
};
// exhaustive family for 4 lanes (K in [0,256)) and 2 lanes (K in [0,4))
template <unsigned K>
struct G4
{
    static constexpr size_t get(size_t i, size_t n) { return n == 4 ? ((K >> (2 * i)) & 3) : n == 2 ? ((K >> i) & 1) : i; }
};
// ---- shuffle index generators (values in [0, 2n))
// (the near-fast-path family SNear<Shape, Variant, Pos, Kind> lives in common/shufgen.hpp)
template <unsigned S>
struct SRand
{
    static constexpr size_t get(size_t i, size_t n) { return cmix(S * 1000003ull + i * 7919ull + 5) % (2 * n); }
};
struct SZipLo
{
    static constexpr size_t get(size_t i, size_t n) { return (i / 2) + (i & 1) * n; }
};
struct SZipHi
{
    static constexpr size_t get(size_t i, size_t n) { return n / 2 + (i / 2) + (i & 1) * n; }
};
struct SEvenPairs // (x[0], y[0], x[2], y[2], ...): NOT a zip; the generic kernel once mistook it for zip_lo
{
    static constexpr size_t get(size_t i, size_t n) { return (i & 1) ? n + (i - 1) : i; }
};
struct SOddPairs // (x[1], y[1], x[3], y[3], ...)
{
    static constexpr size_t get(size_t i, size_t n) { return (i & 1) ? n + i : i + 1; }
};
struct SSel
{
    static constexpr size_t get(size_t i, size_t n) { return i + ((i & 1) ? n : 0); }
};
struct SSel2
{
    static constexpr size_t get(size_t i, size_t n) { return i + ((cmix(i + 17) & 1) ? n : 0); }
};
struct SAllY
{
    static constexpr size_t get(size_t i, size_t n) { return n + (n - 1 - i); }
};
struct SAllX
{
    static constexpr size_t get(size_t i, size_t n) { return (i * 3 + 1) % n; }
};
struct SHalfHalf // low half from x reversed, high half from y
{
    static constexpr size_t get(size_t i, size_t n) { return i < n / 2 ? n / 2 - 1 - i : n + i; }
};

// when the unit runs for C19, the constant-parameter APIs (shuffle mask, slide/rotate count, insert index)
// are reported under C19: "every API taking a constant returns what its definition gives for the converted values"
static const char* P05()
{
    return (ctx().prop && strcmp(ctx().prop, "C19") == 0) ? "C19" : "C05";
}
template <class T>
static T pat(Rng& r)
{
    return frombits<T>((bits_t<T>)r.next());
}
// distinct per-lane patterns: lane index in the low bits, random above (so a wrong source lane cannot collide)
template <class T>
static void fill_distinct(T* a, size_t n, Rng& r, unsigned tag)
{
    for (size_t i = 0; i < n; ++i)
    {
        bits_t<T> u = (bits_t<T>)r.next();
        if (sizeof(T) == 1)
            u = (bits_t<T>)((i & 0x7f) | (tag ? 0x80 : 0));
        else
            u = (bits_t<T>)((u << 8) | (bits_t<T>)(i & 0x7f) | (tag ? 0x80 : 0));
        a[i] = frombits<T>(u);
    }
}
template <class M>
static std::string maskstr(size_t n)
{
    std::string s = "[";
    for (size_t j = 0; j < n; ++j)
        s += (j ? "," : "") + std::to_string((unsigned long long)M::get(j));
    return s + "]";
}

constexpr bool avx512_without_bw()
{
    return std::is_base_of<xs::avx512f, ARCH>::value && !std::is_base_of<xs::avx512bw, ARCH>::value;
}


// ------------------------------------------------------------------ swizzle: one mask through the constant and the run-time form
template <class T, class G>
static void cswz(Rng& rng, const char* gname)
{
    using B = xs::batch<T, ARCH>;
    using IT = xs::as_unsigned_integer_t<T>;
    using M = decltype(xs::make_batch_constant<IT, G, ARCH>());
    constexpr size_t N = B::size;
    static OpStat& st = reg("C05", "swizzle_const", tname<T>());
    static OpStat& sd = reg("C05", "swizzle_runtime", tname<T>());
    static OpStat& s19 = reg("C19", "swizzle_const_vs_runtime", tname<T>());
    alignas(64) T a[N], o[N], o2[N];
    alignas(64) IT mi[N];
    for (size_t i = 0; i < N; ++i)
        mi[i] = (IT)G::get(i, N);
    const unsigned cell = (unsigned)(strhash(gname) & 0xfffff);
    if constexpr (has_cswz<T, ARCH, M>::value)
    {
        if (st.on)
            for (int rep = 0; rep < 2; ++rep)
            {
                fill_distinct(a, N, rng, 0);
                mark_case("swizzle_const", tname<T>(), a, sizeof a);
                xs::swizzle(B::load_aligned(a), M {}).store_aligned(o);
                st.evals += N;
                st.cell(cell);
                for (size_t i = 0; i < N; ++i)
                    if (!same_bits(a[mi[i]], o[i]))
                    {
                        viol(st, "unclassified", "{\"mask_family\":\"" + std::string(gname) + "\",\"mask\":" + hexarr(mi, N) + ",\"lane\":" + std::to_string(i) + ",\"src\":" + hexarr(a, N) + ",\"got\":" + hexarr(o, N) + "}");
                        break;
                    }
                if (st.want_sample())
                    st.samples.push_back("{\"mask\":" + hexarr(mi, N) + ",\"src\":" + hexarr(a, N) + ",\"got\":" + hexarr(o, N) + "}");
            }
        if constexpr (has_dswz<T, ARCH>::value)
        {
            if (s19.on)
            {
                fill_distinct(a, N, rng, 0);
                mark_case("swizzle_const_vs_runtime", tname<T>(), a, sizeof a);
                xs::swizzle(B::load_aligned(a), M {}).store_aligned(o);
                xs::swizzle(B::load_aligned(a), xs::batch<IT, ARCH>(M {})).store_aligned(o2);
                s19.evals += N;
                s19.cell(cell);
                if (memcmp(o, o2, sizeof(T) * N))
                    viol(s19, "unclassified", "{\"mask\":" + hexarr(mi, N) + ",\"const\":" + hexarr(o, N) + ",\"runtime\":" + hexarr(o2, N) + "}");
            }
        }
    }
    else
    {
        static bool once = false;
        if (!once)
        {
            once = true;
            note_na("C05", "swizzle_const", tname<T>(), (std::string("no constant-swizzle kernel accepts mask family ") + gname + " (and possibly others)").c_str());
        }
    }
    if constexpr (has_dswz<T, ARCH>::value)
    {
        if (sd.on)
        {
            fill_distinct(a, N, rng, 0);
            mark_case("swizzle_runtime", tname<T>(), mi, sizeof mi);
            xs::swizzle(B::load_aligned(a), xs::batch<IT, ARCH>::load_aligned(mi)).store_aligned(o);
            sd.evals += N;
            sd.cell(cell);
            for (size_t i = 0; i < N; ++i)
                if (!same_bits(a[mi[i]], o[i]))
                {
                    viol(sd, "unclassified", "{\"mask_family\":\"" + std::string(gname) + "\",\"index\":" + hexarr(mi, N) + ",\"lane\":" + std::to_string(i) + ",\"src\":" + hexarr(a, N) + ",\"got\":" + hexarr(o, N) + "}");
                    break;
                }
        }
    }
}
template <class T, unsigned... Ks>
static void cswz_exhaustive(Rng& rng, std::integer_sequence<unsigned, Ks...>)
{
    (cswz<T, G4<Ks>>(rng, "exhaustive"), ...);
}
template <unsigned Off, unsigned... Is>
constexpr auto offset_seq(std::integer_sequence<unsigned, Is...>) { return std::integer_sequence<unsigned, (Off + Is)...> {}; }

// ------------------------------------------------------------------ shuffle
template <class G>
constexpr bool all_below(size_t n, bool below)
{
    for (size_t i = 0; i < n; ++i)
        if ((G::get(i, n) < n) != below)
            return false;
    return true;
}
template <class T, class G>
static void cshuf(Rng& rng, const char* gname)
{
    using B = xs::batch<T, ARCH>;
    using IT = xs::as_unsigned_integer_t<T>;
    using M = decltype(xs::make_batch_constant<IT, G, ARCH>());
    constexpr size_t N = B::size;
    static OpStat& st = reg(P05(), "shuffle", tname<T>());
    if (!st.on)
        return;
    // the generic kernel turns pure-x / pure-y masks into a constant swizzle, zip patterns into zip_lo/hi
    struct GX
    {
        static constexpr size_t get(size_t i, size_t n) { return G::get(i, n) % n; }
    };
    using MX = decltype(xs::make_batch_constant<IT, GX, ARCH>());
    constexpr bool pure = all_below<G>(N, true) || all_below<G>(N, false);
    #ifdef XSIMD_WITH_EMULATED
    constexpr bool is_emulated = true; // only the emulated units are built with it
#else
    constexpr bool is_emulated = false;
#endif
    constexpr bool needs_swz = pure || is_emulated; // emulated has no builtin path: generic falls back to two swizzles
    constexpr bool zip_excluded = avx512_without_bw() && sizeof(T) <= 2; // run-time "not implemented yet" asserts (DESIGN.md 5.3)
    if constexpr ((!needs_swz || has_cswz<T, ARCH, MX>::value) && !zip_excluded)
    {
        alignas(64) T a[N], b[N], o[N];
        alignas(64) IT mi[N];
        for (size_t i = 0; i < N; ++i)
            mi[i] = (IT)G::get(i, N);
        for (int rep = 0; rep < 2; ++rep)
        {
            fill_distinct(a, N, rng, 0);
            fill_distinct(b, N, rng, 1);
            mark_case("shuffle", tname<T>(), mi, sizeof mi);
            xs::shuffle(B::load_aligned(a), B::load_aligned(b), M {}).store_aligned(o);
            st.evals += N;
            st.cell((unsigned)(strhash(gname) & 0xfffff));
            for (size_t i = 0; i < N; ++i)
            {
                size_t k = (size_t)mi[i];
                T e = k < N ? a[k] : b[k - N];
                if (!same_bits(e, o[i]))
                {
                    viol(st, "unclassified", "{\"mask_family\":\"" + std::string(gname) + "\",\"mask\":" + hexarr(mi, N) + ",\"lane\":" + std::to_string(i) + ",\"x\":" + hexarr(a, N) + ",\"y\":" + hexarr(b, N) + ",\"got\":" + hexarr(o, N) + "}");
                    break;
                }
            }
            if (st.want_sample())
                st.samples.push_back("{\"mask\":" + hexarr(mi, N) + ",\"x\":" + hexarr(a, N) + ",\"y\":" + hexarr(b, N) + ",\"got\":" + hexarr(o, N) + "}");
        }
    }
    else
    {
        static bool once = false;
        if (!once)
        {
            once = true;
            note_na("C05", "shuffle", tname<T>(), (std::string("mask family ") + gname + " reduces to a swizzle/zip this arch/type does not accept").c_str());
        }
    }
}

// packs on / one index away from the in-lane fast-path shapes of the sse/avx/avx512 shuffle kernels
template <class T, unsigned Shape, unsigned Variant, size_t... P>
static void cshuf_near(Rng& rng, std::index_sequence<P...>)
{
    constexpr size_t N = xs::batch<T, ARCH>::size;
    static const std::string nm = "SNear<shape" + std::to_string(Shape) + ",variant" + std::to_string(Variant) + ">";
    cshuf<T, SNear<Shape, Variant, N, 0>>(rng, (nm + "base").c_str());
    (cshuf<T, SNear<Shape, Variant, P, 0>>(rng, (nm + "other_source@" + std::to_string(P)).c_str()), ...);
    (cshuf<T, SNear<Shape, Variant, P, 1>>(rng, (nm + "other_lane@" + std::to_string(P)).c_str()), ...);
    cshuf<T, SNear<Shape, Variant, 0, 2>>(rng, (nm + "next_in_lane@0").c_str());
    cshuf<T, SNear<Shape, Variant, N - 1, 2>>(rng, (nm + "next_in_lane@last").c_str());
}
template <class T>
static void cshuf_near_all(Rng& rng)
{
    if constexpr (sizeof(T) >= 4)
    {
        using Seq = std::make_index_sequence<xs::batch<T, ARCH>::size>;
        cshuf_near<T, 0, 0>(rng, Seq {});
        cshuf_near<T, 1, 0>(rng, Seq {});
        cshuf_near<T, 2, 0>(rng, Seq {});
        cshuf_near<T, 3, 0>(rng, Seq {});
#ifdef VH_MASKS_FULL
        cshuf_near<T, 0, 1>(rng, Seq {});
        cshuf_near<T, 1, 1>(rng, Seq {});
        cshuf_near<T, 2, 1>(rng, Seq {});
        cshuf_near<T, 3, 1>(rng, Seq {});
        cshuf_near<T, 0, 2>(rng, Seq {});
        cshuf_near<T, 2, 2>(rng, Seq {});
#endif
    }
}

// ------------------------------------------------------------------ slide_left/right<N> for every N in [0, sizeof(register)]
template <class T, size_t... Is>
static void slides(Rng& rng, std::index_sequence<Is...>)
{
    using B = xs::batch<T, ARCH>;
    constexpr size_t N = B::size;
    constexpr size_t BY = sizeof(T) * N;
    static OpStat& sl = reg(P05(), "slide_left", tname<T>());
    static OpStat& sr = reg(P05(), "slide_right", tname<T>());
    if (!sl.on && !sr.on)
        return;
    alignas(64) T a[N], o[N];
    for (size_t i = 0; i < N; ++i)
        a[i] = pat<T>(rng);
    B va = B::load_aligned(a);
    const unsigned char* ab = (const unsigned char*)a;
    const unsigned char* ob = (const unsigned char*)o;
    auto chk = [&](OpStat& st, bool left, size_t n, B r)
    {
        if (!st.on)
            return;
        r.store_aligned(o);
        st.evals += BY;
        st.cell((unsigned)n);
        for (size_t j = 0; j < BY; ++j)
        {
            unsigned char e = left ? (j >= n ? ab[j - n] : 0) : (j + n < BY ? ab[j + n] : 0);
            if (ob[j] != e)
            {
                viol(st, "unclassified", "{\"N\":" + std::to_string(n) + ",\"byte\":" + std::to_string(j) + ",\"src\":" + hexarr(ab, BY) + ",\"got\":" + hexarr(ob, BY) + "}");
                break;
            }
        }
    };
    mark_case("slide", tname<T>(), a, sizeof a);
    (chk(sl, true, Is, xs::slide_left<Is>(va)), ...);
    (chk(sr, false, Is, xs::slide_right<Is>(va)), ...);
    // counts beyond the register: everything is shifted out (the API puts no bound on N)
    chk(sl, true, BY + 1, xs::slide_left<BY + 1>(va));
    chk(sr, false, BY + 1, xs::slide_right<BY + 1>(va));
    chk(sl, true, BY + sizeof(T), xs::slide_left<BY + sizeof(T)>(va));
    chk(sr, false, BY + sizeof(T), xs::slide_right<BY + sizeof(T)>(va));
    chk(sl, true, 2 * BY, xs::slide_left<2 * BY>(va));
    chk(sr, false, 2 * BY, xs::slide_right<2 * BY>(va));
}

// ------------------------------------------------------------------ rotate_left/right<N> for every N in [0, 2*size]
template <class T, size_t K>
static void rotate_one(const T* a)
{
    using B = xs::batch<T, ARCH>;
    using IT = xs::as_unsigned_integer_t<T>;
    constexpr size_t N = B::size;
    static OpStat& rl = reg(P05(), "rotate_left", tname<T>());
    static OpStat& rr = reg(P05(), "rotate_right", tname<T>());
    using ML = decltype(xs::make_batch_constant<IT, GRot<K>, ARCH>());
    using MR = decltype(xs::make_batch_constant<IT, GRot<(N - K % N) % N>, ARCH>());
    alignas(64) T o[N];
    B va = B::load_aligned(a);
    // rotate_left of 16-bit lanes has dedicated kernels from ssse3 / avx2 on; everything else is the generic constant swizzle
    constexpr bool left16 = sizeof(T) == 2 && (std::is_base_of<xs::ssse3, ARCH>::value || std::is_base_of<xs::avx2, ARCH>::value);
    if constexpr (has_cswz<T, ARCH, ML>::value || left16)
    {
        if (rl.on)
        {
            mark_case("rotate_left", tname<T>(), a, sizeof(T) * N);
            xs::rotate_left<K>(va).store_aligned(o);
            rl.evals += N;
            rl.cell((unsigned)K);
            for (size_t i = 0; i < N; ++i)
                if (!same_bits(a[(i + K) % N], o[i]))
                {
                    viol(rl, "unclassified", "{\"N\":" + std::to_string(K) + ",\"lane\":" + std::to_string(i) + ",\"src\":" + hexarr(a, N) + ",\"got\":" + hexarr(o, N) + "}");
                    break;
                }
        }
    }
    else if (K == 0)
        note_na("C05", "rotate_left", tname<T>(), "no kernel");
    if constexpr (has_cswz<T, ARCH, MR>::value)
    {
        if (rr.on)
        {
            mark_case("rotate_right", tname<T>(), a, sizeof(T) * N);
            xs::rotate_right<K>(va).store_aligned(o);
            rr.evals += N;
            rr.cell((unsigned)K);
            for (size_t i = 0; i < N; ++i)
                if (!same_bits(a[(i + N - K % N) % N], o[i]))
                {
                    viol(rr, "unclassified", "{\"N\":" + std::to_string(K) + ",\"lane\":" + std::to_string(i) + ",\"src\":" + hexarr(a, N) + ",\"got\":" + hexarr(o, N) + "}");
                    break;
                }
        }
    }
    else if (K == 0)
        note_na("C05", "rotate_right", tname<T>(), "no constant swizzle kernel");
}
template <class T, size_t... Is>
static void rotates(Rng& rng, std::index_sequence<Is...>)
{
    using B = xs::batch<T, ARCH>;
    constexpr size_t N = B::size;
    alignas(64) T a[N];
    fill_distinct(a, N, rng, 0);
    (rotate_one<T, Is>(a), ...);
}

// ------------------------------------------------------------------ insert<I> / get(i)
template <class T, size_t... Is>
static void inserts(Rng& rng, std::index_sequence<Is...>)
{
    using B = xs::batch<T, ARCH>;
    constexpr size_t N = B::size;
    static OpStat& st = reg(P05(), "insert", tname<T>());
    if (!st.on)
        return;
    alignas(64) T a[N], o[N];
    for (int rep = 0; rep < 4; ++rep)
    {
        fill_distinct(a, N, rng, 0);
        B va = B::load_aligned(a);
        T v = pat<T>(rng);
        auto chk = [&](size_t k, B r)
        {
            r.store_aligned(o);
            st.evals += N;
            st.cell((unsigned)k);
            for (size_t i = 0; i < N; ++i)
                if (!same_bits(i == k ? v : a[i], o[i]))
                {
                    viol(st, "unclassified", "{\"I\":" + std::to_string(k) + ",\"lane\":" + std::to_string(i) + ",\"value\":\"" + hexv(v) + "\",\"src\":" + hexarr(a, N) + ",\"got\":" + hexarr(o, N) + "}");
                    break;
                }
            T g = va.get(k);
            if (!same_bits(g, a[k]))
                viol(st, "get_lane", "{\"i\":" + std::to_string(k) + ",\"got\":\"" + hexv(g) + "\",\"src\":" + hexarr(a, N) + "}");
        };
        mark_case("insert", tname<T>(), a, sizeof a);
        (chk(Is, xs::insert(va, v, xs::index<Is>())), ...);
    }
}

// ------------------------------------------------------------------ run-time operations
template <class T>
static void compress_expand(const T* a, const bool* mk)
{
    using B = xs::batch<T, ARCH>;
    using BB = xs::batch_bool<T, ARCH>;
    constexpr size_t N = B::size;
    static OpStat& sc = reg("C05", "compress", tname<T>());
    static OpStat& se = reg("C05", "expand", tname<T>());
    alignas(64) T o[N];
    T z;
    memset(&z, 0, sizeof z);
    BB m = BB::load_unaligned(mk);
    B va = B::load_aligned(a);
    uint64_t bm = 0;
    for (size_t i = 0; i < N; ++i)
        if (mk[i])
            bm |= 1ull << i;
    if (sc.on)
    {
        mark_case("compress", tname<T>(), mk, N);
        xs::compress(va, m).store_aligned(o);
        sc.evals += N;
        sc.cell((unsigned)(bm & 0xfffff) ^ (unsigned)(bm >> 20));
        size_t j = 0;
        bool bad = false;
        for (size_t i = 0; i < N && !bad; ++i)
            if (mk[i])
            {
                if (!same_bits(a[i], o[j]))
                    bad = true;
                j++;
            }
        for (; j < N && !bad; ++j)
            if (!same_bits(z, o[j]))
                bad = true;
        if (bad)
            viol(sc, "unclassified", "{\"mask\":\"" + hexv(bm) + "\",\"src\":" + hexarr(a, N) + ",\"got\":" + hexarr(o, N) + "}");
    }
    if (se.on)
    {
        mark_case("expand", tname<T>(), mk, N);
        xs::expand(va, m).store_aligned(o);
        se.evals += N;
        se.cell((unsigned)(bm & 0xfffff) ^ (unsigned)(bm >> 20));
        size_t j = 0;
        for (size_t i = 0; i < N; ++i)
        {
            T e = mk[i] ? a[j++] : z;
            if (!same_bits(e, o[i]))
            {
                viol(se, "unclassified", "{\"mask\":\"" + hexv(bm) + "\",\"lane\":" + std::to_string(i) + ",\"src\":" + hexarr(a, N) + ",\"got\":" + hexarr(o, N) + "}");
                break;
            }
        }
    }
}

template <class T>
static void dyn(Rng& rng)
{
    using B = xs::batch<T, ARCH>;
    using IT = xs::as_unsigned_integer_t<T>;
    constexpr size_t N = B::size;
    static OpStat& sd = reg("C05", "swizzle_runtime", tname<T>());
    static OpStat& szl = reg("C05", "zip_lo", tname<T>());
    static OpStat& szh = reg("C05", "zip_hi", tname<T>());
    static OpStat& sep = reg("C05", "extract_pair", tname<T>());
    static OpStat& stp = reg("C05", "transpose", tname<T>());
    alignas(64) T a[N], b[N], o[N];
    alignas(64) IT mi[N];
    bool mk[N];
    constexpr bool zip_excluded = avx512_without_bw() && sizeof(T) <= 2;
    if (zip_excluded)
        note_na("C05", "zip_lo/zip_hi", tname<T>(), "kernel is a run-time assert(false && \"not implemented yet\") on avx512f/cd/dq (DESIGN.md 5.3)");
    long iters = budget(400, 20000);
    for (long it = 0; it < iters; ++it)
    {
        fill_distinct(a, N, rng, 0);
        fill_distinct(b, N, rng, 1);
        int mmode = (int)(it % 4);
        size_t k0 = (size_t)(it / 4) % (N + 1);
        for (size_t i = 0; i < N; ++i)
        {
            mi[i] = (IT)(rng.next() % N);
            mk[i] = mmode == 0 ? (rng.next() & 1) : mmode == 1 ? (i == k0) : mmode == 2 ? (i < k0) : (i != k0);
        }
        B va = B::load_aligned(a), vb = B::load_aligned(b);
        if constexpr (has_dswz<T, ARCH>::value)
        {
            if (sd.on)
            {
                if (it % 8 == 1) // all indices equal / extremes
                    for (size_t i = 0; i < N; ++i)
                        mi[i] = (IT)((it & 8) ? N - 1 : 0);
                mark_case("swizzle_runtime", tname<T>(), mi, sizeof mi);
                xs::swizzle(va, xs::batch<IT, ARCH>::load_aligned(mi)).store_aligned(o);
                sd.evals += N;
                sd.cell((unsigned)(mix(mi[0], mi[N - 1]) & 0xffff));
                for (size_t i = 0; i < N; ++i)
                    if (!same_bits(a[mi[i]], o[i]))
                    {
                        viol(sd, "unclassified", "{\"mask_family\":\"random\",\"index\":" + hexarr(mi, N) + ",\"lane\":" + std::to_string(i) + ",\"src\":" + hexarr(a, N) + ",\"got\":" + hexarr(o, N) + "}");
                        break;
                    }
            }
        }
        else if (it == 0)
            note_na("C05", "swizzle_runtime", tname<T>(), "no run-time swizzle kernel");
        if constexpr (!zip_excluded)
        {
            if (szl.on)
            {
                mark_case("zip_lo", tname<T>(), a, sizeof a);
                xs::zip_lo(va, vb).store_aligned(o);
                szl.evals += N;
                szl.cell((unsigned)(it & 63));
                for (size_t i = 0; i < N; ++i)
                    if (!same_bits((i & 1) ? b[i / 2] : a[i / 2], o[i]))
                    {
                        viol(szl, "unclassified", "{\"lane\":" + std::to_string(i) + ",\"x\":" + hexarr(a, N) + ",\"y\":" + hexarr(b, N) + ",\"got\":" + hexarr(o, N) + "}");
                        break;
                    }
            }
            if (szh.on)
            {
                mark_case("zip_hi", tname<T>(), a, sizeof a);
                xs::zip_hi(va, vb).store_aligned(o);
                szh.evals += N;
                szh.cell((unsigned)(it & 63));
                for (size_t i = 0; i < N; ++i)
                    if (!same_bits((i & 1) ? b[N / 2 + i / 2] : a[N / 2 + i / 2], o[i]))
                    {
                        viol(szh, "unclassified", "{\"lane\":" + std::to_string(i) + ",\"x\":" + hexarr(a, N) + ",\"y\":" + hexarr(b, N) + ",\"got\":" + hexarr(o, N) + "}");
                        break;
                    }
            }
        }
        if (sep.on && it % 4 == 0)
            for (size_t k = 0; k < N; ++k)
            {
                // extract_pair(x, y, k) = window [y[k..n-1], x[0..k-1]]
                mark_case("extract_pair", tname<T>(), a, sizeof a);
                memset(o, 0xa5, sizeof o);
                xs::extract_pair(va, vb, k).store_aligned(o);
                sep.evals += N;
                sep.cell((unsigned)k);
                for (size_t i = 0; i < N; ++i)
                    if (!same_bits((i + k < N) ? b[i + k] : a[i + k - N], o[i]))
                    {
                        viol(sep, k > N / 2 ? "index_gt_half" : "unclassified", "{\"i\":" + std::to_string(k) + ",\"lane\":" + std::to_string(i) + ",\"x\":" + hexarr(a, N) + ",\"y\":" + hexarr(b, N) + ",\"got\":" + hexarr(o, N) + "}");
                        break;
                    }
            }
        compress_expand<T>(a, mk);
        if (stp.on && it % 8 == 0)
        {
            B m[N];
            alignas(64) T mat[N][N];
            for (size_t i = 0; i < N; ++i)
            {
                for (size_t j = 0; j < N; ++j) // every cell distinct from its row/column neighbours for every width (8-bit too)
                    mat[i][j] = frombits<T>(sizeof(T) == 1 ? (bits_t<T>)((i * 67 + j * 29 + (i ^ j) + (size_t)it) & 0xff) : (bits_t<T>)((rng.next() << 16) | (i << 8) | j));
                m[i] = B::load_aligned(mat[i]);
            }
            mark_case("transpose", tname<T>(), mat, 64);
            xs::transpose(m, m + N);
            stp.evals += N * N;
            stp.cell((unsigned)(it & 63));
            for (size_t i = 0; i < N; ++i)
            {
                m[i].store_aligned(o);
                bool bad = false;
                for (size_t j = 0; j < N; ++j)
                    if (!same_bits(o[j], mat[j][i]))
                    {
                        viol(stp, "unclassified", "{\"row\":" + std::to_string(i) + ",\"col\":" + std::to_string(j) + ",\"got_row\":" + hexarr(o, N) + "}");
                        bad = true;
                        break;
                    }
                if (bad)
                    break;
            }
        }
    }
    // compress / expand under all 2^N masks for N <= 16
    if (N <= 16)
    {
        fill_distinct(a, N, rng, 0);
        for (uint64_t m = 0; m < (1ull << N); ++m)
        {
            if ((m & 1023) == 0)
                fill_distinct(a, N, rng, 0);
            for (size_t i = 0; i < N; ++i)
                mk[i] = (m >> i) & 1;
            compress_expand<T>(a, mk);
        }
        info(std::string("compress_expand_all_masks_") + tname<T>(), std::to_string(1ull << N));
    }
}

template <class T>
static void all_ops(uint64_t seed)
{
    using B = xs::batch<T, ARCH>;
    constexpr size_t N = B::size;
    Rng rng(mix(seed, strhash(tname<T>())));
#define CS(G) cswz<T, G>(rng, #G);
    CS(GId)
    CS(GRev)
    CS(GBc<0>)
    CS(GBc<1>)
    CS(GBc<3>)
    CS(GBc<7>)
    CS(GBc<13>)
    CS(GBcLast)
    CS(GRot<1>)
    CS(GRot<3>)
    CS(GRot<5>)
    CS(GSwapPairs)
    CS(GSwapHalves)
    CS(GDupEven)
    CS(GDupOdd)
    CS(GInLaneRev)
    CS(GCrossLane)
    CS(GPairs)
    CS(GLowHalfOnly)
    CS(GHighHalfOnly)
    CS(GMix4a)
    CS(GMix4b)
    CS(GMix4c)
    CS(GMix2a)
    CS(GMix2b)
    CS(GMix8a)
    CS(GSplitHigh<1>)
    CS(GSplitHigh<2>)
    CS(GSplitHigh<3>)
    CS(GSplitHigh<4>)
    CS(GSplitHigh<5>)
    CS(GReduceLast)
    CS(GRand<1>)
    CS(GRand<2>)
    CS(GRand<3>)
    CS(GRand<4>)
    CS(GRand<5>)
    CS(GRand<6>)
    CS(GRand<7>)
    CS(GRand<8>)
#ifdef VH_MASKS_FULL
    CS(GRand<9>)
    CS(GRand<10>)
    CS(GRand<11>)
    CS(GRand<12>)
    CS(GRand<13>)
    CS(GRand<14>)
    CS(GRand<15>)
    CS(GRand<16>)
    CS(GRand<17>)
    CS(GRand<18>)
    CS(GRand<19>)
    CS(GRand<20>)
    CS(GRand<21>)
    CS(GRand<22>)
    CS(GRand<23>)
    CS(GRand<24>)
#endif
    if constexpr (N == 2)
        cswz_exhaustive<T>(rng, std::make_integer_sequence<unsigned, 4> {});
    if constexpr (N == 4)
    {
#ifdef VH_MASKS_FULL
        cswz_exhaustive<T>(rng, std::make_integer_sequence<unsigned, 256> {});
        info(std::string("swizzle_const_exhaustive_") + tname<T>(), "256");
#else
        // quick build: 64 of the 256 masks (every 4th, offset 1, so identity/broadcast0 are not the only ones)
        cswz_exhaustive<T>(rng, std::integer_sequence<unsigned, 1, 5, 9, 13, 17, 21, 25, 29, 33, 37, 41, 45, 49, 53, 57, 61, 65, 69, 73, 77, 81, 85, 89, 93, 97, 101, 105, 109, 113, 117, 121, 125, 129, 133, 137, 141, 145, 149, 153, 157, 161, 165, 169, 173, 177, 181, 185, 189, 193, 197, 201, 205, 209, 213, 217, 221, 225, 229, 233, 237, 241, 245, 249, 253> {});
        info(std::string("swizzle_const_exhaustive_") + tname<T>(), "64");
#endif
    }
#define SH(G) cshuf<T, G>(rng, #G);
    SH(GId)
    SH(SAllY)
    SH(SAllX)
    SH(SZipLo)
    SH(SZipHi)
    SH(SEvenPairs)
    SH(SOddPairs)
    SH(SSel)
    SH(SSel2)
    SH(SHalfHalf)
    SH(SRand<1>)
    SH(SRand<2>)
    SH(SRand<3>)
    SH(SRand<4>)
    SH(SRand<5>)
    SH(SRand<6>)
    cshuf_near_all<T>(rng);
#ifdef VH_MASKS_FULL
    SH(SRand<7>)
    SH(SRand<8>)
    SH(SRand<9>)
    SH(SRand<10>)
    SH(SRand<11>)
    SH(SRand<12>)
    SH(SRand<13>)
    SH(SRand<14>)
    SH(SRand<15>)
    SH(SRand<16>)
#endif
    if constexpr (std::is_integral<T>::value)
    {
        if constexpr (!avx512_without_bw())
            slides<T>(rng, std::make_index_sequence<sizeof(T) * N + 1> {});
        else
            note_na("C05", "slide_left/right", tname<T>(), "static_assert: not implemented on avx512f/cd/dq");
    }
    rotates<T>(rng, std::make_index_sequence<2 * N + 1> {}); // the API puts no bound on N: counts wrap modulo the lane count
    inserts<T>(rng, std::make_index_sequence<N> {});
    dyn<T>(rng);
}

// transpose of rows held the way callers hold them: a std::vector of batches on the heap, filled by assignment, transposed
// through data() pointers, read back by stores.  (A kernel that accesses the rows through a pointer to an unrelated batch
// type lets the optimiser reorder the caller's row stores against the kernel's loads: stale rows come back.  Local arrays of
// the monitor above do not provoke it; this idiom does.)
template <class T>
__attribute__((noinline)) static void transpose_heap_rows(uint64_t seed)
{
    using B = xs::batch<T, ARCH>;
    constexpr size_t N = B::size;
    static OpStat& st = reg("C05", "transpose_heap_rows", tname<T>());
    if (!st.on)
        return;
    Rng rng(mix(seed, 5150 + strhash(tname<T>())));
    for (int rep = 0; rep < 16; ++rep)
    {
        T in[N][N], out[N][N];
        for (size_t i = 0; i < N; ++i)
            for (size_t j = 0; j < N; ++j)
                in[i][j] = frombits<T>(sizeof(T) == 1 ? (bits_t<T>)((i * 67 + j * 29 + (i ^ j) + (size_t)rep + 1) & 0xff) : (bits_t<T>)((rng.next() << 16) | (i << 8) | (j + 1)));
        std::vector<B> m(N);
        for (size_t i = 0; i < N; ++i)
            m[i] = B::load_unaligned(in[i]);
        mark_case("transpose_heap_rows", tname<T>(), in, 64);
        xs::transpose(m.data(), m.data() + N);
        for (size_t i = 0; i < N; ++i)
            m[i].store_unaligned(out[i]);
        st.evals += N * N;
        st.cell((unsigned)rep);
        bool bad = false;
        for (size_t i = 0; i < N && !bad; ++i)
            for (size_t j = 0; j < N; ++j)
                if (!same_bits(out[i][j], in[j][i]))
                {
                    viol(st, "unclassified", "{\"row\":" + std::to_string(i) + ",\"col\":" + std::to_string(j) + ",\"got\":\"" + hexv(out[i][j]) + "\",\"expected\":\"" + hexv(in[j][i]) + "\",\"got_row\":" + hexarr(out[i], N) + "}");
                    bad = true;
                    break;
                }
        if (st.want_sample())
            st.samples.push_back("{\"rep\":" + std::to_string(rep) + ",\"first_row_in\":" + hexarr(in[0], N) + "}");
    }
}

void vh::unit_main()
{
    uint64_t s = ctx().seed;
    transpose_heap_rows<int8_t>(s);
    transpose_heap_rows<uint8_t>(s);
    transpose_heap_rows<int16_t>(s);
    transpose_heap_rows<uint16_t>(s);
    transpose_heap_rows<int32_t>(s);
    transpose_heap_rows<uint32_t>(s);
    transpose_heap_rows<int64_t>(s);
    transpose_heap_rows<uint64_t>(s);
    transpose_heap_rows<float>(s);
    transpose_heap_rows<double>(s);
    all_ops<int8_t>(s);
    all_ops<uint8_t>(s);
    all_ops<int16_t>(s);
    all_ops<uint16_t>(s);
    all_ops<int32_t>(s);
    all_ops<uint32_t>(s);
    all_ops<int64_t>(s);
    all_ops<uint64_t>(s);
    all_ops<float>(s);
    all_ops<double>(s);
}
VH_MAIN()
