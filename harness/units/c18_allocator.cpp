// C18 aligned_allocator and alignment predicates.
// Monitors: alignment of every returned pointer; every byte written and read back; a shadow map of
// live blocks (no overlap, each freed exactly once); requests whose byte size is not representable
// must throw std::bad_alloc; allocator equality; is_aligned; get_alignment_offset vs brute force.
// Heap integrity itself is watched by ASan (leaks on) and valgrind memcheck in the thorough tier.
#include "../common/vcheck.hpp"
#include <complex>
#include <map>
#include <new>
using namespace vh;

// ---- heap monitor: every underlying allocation the allocator makes inside allocate() is tracked until it is
// released; built with -Wl,--wrap=... so that the calls xsimd's inline code makes are routed through here.
// Conservation: acquired = released + live, and live = 0 once the history has handed every block back.
extern "C"
{
    int __real_posix_memalign(void**, size_t, size_t);
    void* __real_malloc(size_t);
    void* __real_calloc(size_t, size_t);
    void* __real_aligned_alloc(size_t, size_t);
    void* __real_memalign(size_t, size_t);
    void __real_free(void*);
}
namespace heapmon
{
    struct Ent
    {
        void* p;
        size_t sz;
    };
    static constexpr size_t CAP = 1 << 14;
    static Ent table[CAP];
    // volatile: the compiler knows free()/posix_memalign() as builtins that touch no global state, so it would
    // otherwise cache these across the very calls that update them (and drop the "window" stores as dead)
    static volatile size_t nlive = 0;
    static volatile int window = 0; // 1: inside allocate(), 2: inside deallocate()
    static volatile long acquired = 0, released = 0, foreign_release = 0, overflowed = 0;
    static void* volatile last_foreign = nullptr;
    static size_t slot(void* p) { return (size_t)(((uintptr_t)p >> 4) * 0x9E3779B97F4A7C15ull >> 50) & (CAP - 1); }
    static void on_alloc(void* p, size_t sz)
    {
        if (window != 1 || !p)
            return;
        if (nlive >= CAP / 2)
        {
            overflowed = overflowed + 1;
            return;
        }
        size_t i = slot(p);
        while (table[i].p)
            i = (i + 1) & (CAP - 1);
        table[i] = { p, sz };
        nlive = nlive + 1;
        acquired = acquired + 1;
    }
    static void on_free(void* p)
    {
        if (!p)
            return;
        size_t i = slot(p);
        while (table[i].p && table[i].p != p)
            i = (i + 1) & (CAP - 1);
        if (!table[i].p)
        {
            if (window == 2)
            {
                foreign_release = foreign_release + 1;
                last_foreign = p;
            }
            return;
        }
        // delete with backward shift
        released = released + 1;
        nlive = nlive - 1;
        size_t j = i;
        for (;;)
        {
            table[i].p = nullptr;
            for (;;)
            {
                j = (j + 1) & (CAP - 1);
                if (!table[j].p)
                    return;
                size_t k = slot(table[j].p);
                if (i <= j ? (i < k && k <= j) : (i < k || k <= j))
                    continue;
                break;
            }
            table[i] = table[j];
            i = j;
        }
    }
}
extern "C"
{
    int __wrap_posix_memalign(void** r, size_t al, size_t sz)
    {
        int rc = __real_posix_memalign(r, al, sz);
        if (rc == 0)
            heapmon::on_alloc(*r, sz);
        return rc;
    }
    void* __wrap_malloc(size_t sz)
    {
        void* p = __real_malloc(sz);
        heapmon::on_alloc(p, sz);
        return p;
    }
    void* __wrap_calloc(size_t a, size_t b)
    {
        void* p = __real_calloc(a, b);
        heapmon::on_alloc(p, a * b);
        return p;
    }
    void* __wrap_aligned_alloc(size_t al, size_t sz)
    {
        void* p = __real_aligned_alloc(al, sz);
        heapmon::on_alloc(p, sz);
        return p;
    }
    void* __wrap_memalign(size_t al, size_t sz)
    {
        void* p = __real_memalign(al, sz);
        heapmon::on_alloc(p, sz);
        return p;
    }
    void __wrap_free(void* p)
    {
        heapmon::on_free(p);
        __real_free(p);
    }
}

struct S24
{
    char c[24];
};
struct Live
{
    unsigned char* p;
    size_t bytes;
    unsigned char tag;
};

template <class T, size_t Al>
static void histories(uint64_t seed, const char* tn)
{
    static OpStat& st = reg("C18", "allocate_deallocate_history", (std::string(tn) + "_align" + std::to_string(Al)).c_str());
    if (!st.on)
        return;
    xsimd::aligned_allocator<T, Al> al;
    Rng rng(mix(seed, strhash(tn) + Al));
    std::vector<Live> live;
    std::map<uintptr_t, size_t> shadow; // start -> bytes of every live block
    long ops = budget(6000, 200000);
    unsigned char tag = 1;
    auto check_free = [&](size_t k)
    {
        Live b = live[k];
        for (size_t i = 0; i < b.bytes; ++i)
            if (b.p[i] != b.tag)
            {
                viol(st, "block_content_corrupted", "{\"bytes\":" + std::to_string(b.bytes) + ",\"offset\":" + std::to_string(i) + "}");
                break;
            }
        shadow.erase((uintptr_t)b.p);
        mark_case("deallocate", st.type.c_str(), &b, sizeof b);
        const long rel0 = heapmon::released, for0 = heapmon::foreign_release;
        heapmon::window = 2;
        al.deallocate(reinterpret_cast<T*>(b.p), b.bytes / sizeof(T));
        heapmon::window = 0;
        if (heapmon::foreign_release != for0)
            viol(st, "deallocate_released_untracked_pointer", "{\"bytes\":" + std::to_string(b.bytes) + ",\"block_minus_released\":" + std::to_string((long)((uintptr_t)b.p - (uintptr_t)heapmon::last_foreign)) + "}");
        else if (heapmon::released == rel0 && !heapmon::overflowed)
            viol(st, "deallocate_released_nothing", "{\"n\":" + std::to_string(b.bytes / sizeof(T)) + ",\"bytes\":" + std::to_string(b.bytes) + "}");
        live[k] = live.back();
        live.pop_back();
    };
    for (long it = 0; it < ops; ++it)
    {
        uint64_t r = rng.next();
        if (live.size() < 512 && (r % 3) != 0)
        {
            size_t n;
            switch ((r >> 8) % 6)
            {
            case 0: n = (r >> 16) % 65; break;
            case 1: n = ((size_t)1 << ((r >> 16) % 14)) + ((r >> 24) % 3) - 1; break;
            case 2: n = 4096 / sizeof(T) * (1 + (r >> 16) % 4); break;
            case 3: n = 0; break;
            default: n = (r >> 16) % 700; break;
            }
            T* p = nullptr;
            mark_case("allocate", st.type.c_str(), &n, sizeof n);
            try
            {
                heapmon::window = 1;
                p = al.allocate(n);
                heapmon::window = 0;
            }
            catch (std::bad_alloc&)
            {
                heapmon::window = 0;
                viol(st, "bad_alloc_on_small_request", "{\"n\":" + std::to_string(n) + "}");
                continue;
            }
            st.evals++;
            st.cell((unsigned)(n < 4096 ? n : 4096 + (n >> 8)));
            if (p == nullptr && n != 0)
            {
                viol(st, "null_without_exception", "{\"n\":" + std::to_string(n) + "}");
                continue;
            }
            if (p == nullptr)
                continue;
            if (((uintptr_t)p) % Al)
                viol(st, "misaligned_pointer", "{\"n\":" + std::to_string(n) + ",\"pointer_mod_align\":" + std::to_string((size_t)((uintptr_t)p % Al)) + "}");
            size_t bytes = n * sizeof(T);
            // overlap with any live block?
            uintptr_t s = (uintptr_t)p, e = s + (bytes ? bytes : 1);
            auto itn = shadow.lower_bound(s);
            bool overlap = false;
            if (itn != shadow.end() && itn->first < e)
                overlap = true;
            if (itn != shadow.begin())
            {
                auto pr = std::prev(itn);
                if (pr->first + (pr->second ? pr->second : 1) > s)
                    overlap = true;
            }
            if (overlap)
                viol(st, "overlapping_live_blocks", "{\"n\":" + std::to_string(n) + "}");
            shadow[s] = bytes;
            memset(p, tag, bytes); // every byte of the block is writable
            live.push_back({ (unsigned char*)p, bytes, tag });
            tag = (unsigned char)(tag * 7 + 3);
            if (st.want_sample())
                st.samples.push_back("{\"op\":\"allocate\",\"n\":" + std::to_string(n) + ",\"pointer_mod_align\":" + std::to_string((size_t)((uintptr_t)p % Al)) + ",\"live_blocks\":" + std::to_string(live.size()) + "}");
        }
        else if (!live.empty())
        {
            st.evals++;
            check_free((size_t)((r >> 20) % live.size()));
        }
    }
    while (!live.empty())
        check_free(live.size() - 1);
    // conservation: everything the allocator obtained from the heap has been handed back
    st.evals++;
    if (heapmon::nlive != 0)
    {
        std::string sizes;
        int shown = 0;
        for (size_t i = 0; i < heapmon::CAP && shown < 6; ++i)
            if (heapmon::table[i].p)
                sizes += (shown++ ? "," : "") + std::to_string(heapmon::table[i].sz);
        viol(st, "block_never_released", "{\"heap_blocks_still_held\":" + std::to_string((size_t)heapmon::nlive) + ",\"acquired\":" + std::to_string((long)heapmon::acquired) + ",\"released\":" + std::to_string((long)heapmon::released) + ",\"requested_sizes_of_some\":[" + sizes + "]}");
        // forget them so that the next history starts balanced
        for (size_t i = 0; i < heapmon::CAP; ++i)
            heapmon::table[i].p = nullptr;
        heapmon::nlive = 0;
    }
    info(std::string("heap_conservation_") + tn + "_align" + std::to_string(Al), "{\"acquired\":" + std::to_string((long)heapmon::acquired) + ",\"released\":" + std::to_string((long)heapmon::released) + ",\"live_at_end\":0}");
}

// n * sizeof(T) not representable (or absurdly large): must throw std::bad_alloc
template <class T, size_t Al>
static void huge(const char* tn)
{
    static OpStat& st = reg("C18", "allocate_unrepresentable_size", (std::string(tn) + "_align" + std::to_string(Al)).c_str());
    if (!st.on)
        return;
    xsimd::aligned_allocator<T, Al> al;
    const size_t lim = (size_t)-1 / sizeof(T);
    const size_t ns[] = { lim + 1, lim + 2, lim + 3, lim + 1000, lim / 2 + lim / 4 + 2, (size_t)-1, (size_t)-1 - 1, lim, lim - 1, lim - 3, ((size_t)1 << 63) / sizeof(T) + 1 };
    for (size_t n : ns)
    {
        if (sizeof(T) == 1 && n <= lim && n < ((size_t)1 << 62))
            continue;
        bool wraps = n > lim;
        st.evals++;
        st.cell((unsigned)(n % 4093));
        mark_case("allocate_huge", st.type.c_str(), &n, sizeof n);
        try
        {
            T* p = al.allocate(n);
            // a pointer came back: the block cannot hold n*sizeof(T) bytes
            viol(st, wraps ? "size_overflow" : "absurd_size_returned_pointer",
                 "{\"n\":\"" + hexv(n) + "\",\"sizeof_T\":" + std::to_string(sizeof(T)) + ",\"wrapped_bytes\":\"" + hexv((size_t)(n * sizeof(T))) + "\",\"pointer_is_null\":" + (p ? "false" : "true") + "}");
            if (p)
                al.deallocate(p, n);
        }
        catch (std::bad_alloc&)
        {
        }
        if (st.want_sample())
            st.samples.push_back("{\"n\":\"" + hexv(n) + "\",\"sizeof_T\":" + std::to_string(sizeof(T)) + ",\"expects\":\"bad_alloc\"}");
    }
}

static void predicates(uint64_t seed)
{
    static OpStat& st = reg("C18", "alignment_predicates", "all");
    if (!st.on)
        return;
    (void)seed;
    // allocators compare equal iff alignments are equal
    st.evals += 4;
    if (!(xsimd::aligned_allocator<int, 16>() == xsimd::aligned_allocator<double, 16>()) || (xsimd::aligned_allocator<int, 16>() != xsimd::aligned_allocator<double, 16>()))
        viol(st, "allocator_equality", "{\"case\":\"same alignment, different T must compare equal\"}");
    if ((xsimd::aligned_allocator<int, 16>() == xsimd::aligned_allocator<int, 32>()) || !(xsimd::aligned_allocator<int, 16>() != xsimd::aligned_allocator<int, 32>()))
        viol(st, "allocator_equality", "{\"case\":\"different alignment must compare unequal\"}");
    // is_aligned<A>(p) iff p is a multiple of A::alignment(), for every residue of 4096
    alignas(4096) static unsigned char page[8192];
    auto is_aligned_sweep = [&](auto arch)
    {
        using A = decltype(arch);
        const size_t AL = A::alignment();
        if (AL == 0)
            return;
        for (size_t off = 0; off < 4096; ++off)
        {
            st.evals++;
            st.cell((unsigned)off);
            bool got = xsimd::is_aligned<A>(page + off), exp = (off % AL) == 0;
            if (got != exp)
                viol(st, "is_aligned", std::string("{\"architecture\":\"") + A::name() + "\",\"residue\":" + std::to_string(off) + ",\"alignment\":" + std::to_string(AL) + ",\"got\":" + (got ? "true" : "false") + "}");
        }
    };
    is_aligned_sweep(ARCH {});
    // ... and for every other architecture this build supports (the predicate is pure arithmetic on A::alignment())
    xsimd::supported_architectures::for_each(is_aligned_sweep);
    // default allocator alignment satisfies aligned loads/stores of the default architecture
    {
        using DA = xsimd::default_arch;
        xsimd::default_allocator<float> da;
        float* p = da.allocate(256);
        st.evals++;
        if (!p || !xsimd::is_aligned<DA>(p) || ((uintptr_t)p % DA::alignment()) != 0)
            viol(st, "default_allocator_alignment", "{\"pointer_mod\":" + std::to_string((size_t)((uintptr_t)p % DA::alignment())) + "}");
        else
        {
            for (int i = 0; i < 256; ++i)
                p[i] = (float)i;
            mark_case("default_allocator_aligned_load", "f32", p, 64);
            auto b = xsimd::batch<float, DA>::load_aligned(p);
            b.store_aligned(p + 128);
            if (memcmp(p, p + 128, sizeof(b)))
                viol(st, "default_allocator_alignment", "{\"case\":\"aligned round trip\"}");
        }
        if (p)
            da.deallocate(p, 256);
    }
    // get_alignment_offset(p, size, block) == smallest k <= size with p+k block-aligned, else size
    auto gao = [&](auto* base, const char* tn)
    {
        using T = typename std::remove_pointer<decltype(base)>::type;
        for (size_t off = 0; off < 72; ++off)
            for (size_t size = 0; size <= 40; ++size)
                for (size_t bs : { (size_t)1, (size_t)2, (size_t)4, (size_t)8, (size_t)16, (size_t)32, (size_t)64 })
                {
                    const T* p = base + off;
                    size_t got = xsimd::get_alignment_offset(p, size, bs);
                    size_t exp = size;
                    for (size_t k = 0; k <= size; ++k)
                        if (((uintptr_t)(p + k)) % (bs * sizeof(T)) == 0)
                        {
                            exp = k;
                            break;
                        }
                    st.evals++;
                    st.cell((unsigned)(4096 + off * 64 + size));
                    if (got != exp)
                        viol(st, "get_alignment_offset", std::string("{\"type\":\"") + tn + "\",\"element_offset\":" + std::to_string(off) + ",\"size\":" + std::to_string(size) + ",\"block\":" + std::to_string(bs) + ",\"got\":" + std::to_string(got) + ",\"exp\":" + std::to_string(exp) + "}");
                }
    };
    alignas(4096) static double dbuf[1024];
    gao((float*)page, "float");
    gao(dbuf, "double");
    gao((int16_t*)page, "int16");
    gao((uint8_t*)page, "uint8");
    // element types whose alignment is smaller than their size (std::complex<float|double>): every pointer that is a valid
    // T* (a multiple of alignof(T)), including those that are not multiples of sizeof(T) -- then no element can be block
    // aligned and the answer is size.  (block == 1 is documented as "every element is well aligned" and returns 0
    // whatever the pointer: not asserted for pointers that are not multiples of sizeof(T).)
    auto gao_bytes = [&](auto* base, const char* tn)
    {
        using T = typename std::remove_pointer<decltype(base)>::type;
        for (size_t ob = 0; ob < 40 * sizeof(T); ob += alignof(T))
            for (size_t size = 0; size <= 24; ++size)
                for (size_t bs : { (size_t)1, (size_t)2, (size_t)4, (size_t)8, (size_t)16 })
                {
                    const T* p = reinterpret_cast<const T*>(reinterpret_cast<const unsigned char*>(base) + ob);
                    if (bs == 1 && (ob % sizeof(T)) != 0)
                        continue;
                    size_t got = xsimd::get_alignment_offset(p, size, bs);
                    size_t exp = size;
                    for (size_t k = 0; k <= size; ++k)
                        if (((uintptr_t)(p + k)) % (bs * sizeof(T)) == 0)
                        {
                            exp = k;
                            break;
                        }
                    st.evals++;
                    st.cell((unsigned)(8192 + (ob / alignof(T)) * 32 + size));
                    if (got != exp)
                        viol(st, "get_alignment_offset", std::string("{\"type\":\"") + tn + "\",\"byte_offset\":" + std::to_string(ob) + ",\"size\":" + std::to_string(size) + ",\"block\":" + std::to_string(bs) + ",\"got\":" + std::to_string(got) + ",\"exp\":" + std::to_string(exp) + "}");
                }
    };
    gao_bytes((std::complex<float>*)page, "complex<float>");
    gao_bytes((std::complex<double>*)page, "complex<double>");
    gao_bytes((long double*)page, "long double");
    gao_bytes((uint64_t*)page, "uint64");
    gao_bytes((int32_t*)page, "int32");
    // a pointer that is not even element-aligned: no element is block aligned -> size
    for (size_t size = 0; size <= 8; ++size)
    {
        const float* p = reinterpret_cast<const float*>(page + 2);
        st.evals++;
        if (xsimd::get_alignment_offset(p, size, 4) != size)
            viol(st, "get_alignment_offset", "{\"case\":\"pointer not element aligned\",\"size\":" + std::to_string(size) + "}");
    }
}

void vh::unit_main()
{
    uint64_t s = ctx().seed;
    histories<char, 8>(s, "char");
    histories<char, 64>(s, "char");
    histories<double, 16>(s, "double");
    histories<double, 64>(s, "double");
    histories<S24, 32>(s, "struct24");
    histories<float, 4096>(s, "float");
    histories<int, 256>(s, "int");
    histories<S24, 1024>(s, "struct24");
    histories<double, 8>(s, "double");
    histories<uint16_t, 128>(s, "uint16");
    huge<char, 16>("char");
    huge<double, 16>("double");
    huge<double, 64>("double");
    huge<S24, 32>("struct24");
    huge<float, 4096>("float");
    huge<uint16_t, 8>("uint16");
    predicates(s);
}
VH_MAIN()
