// C04 loads / stores / gather / scatter / broadcast / element-list constructor / get.
// Memory monitor: a 4-page arena whose first and last page are PROT_NONE.  Buffers are placed
// flush against either guard page and at every byte offset of a window straddling the inner
// page boundary (every offset that is a valid pointer to the element type); after each store every byte
// outside [p, p+size) must still hold the canary.
// The same cases are repeated on exact-size heap blocks so that ASan / valgrind red zones see
// intra-page over-reads the guard pages cannot.
#include "../common/vcheck.hpp"
#include <complex>
#include <sys/mman.h>
using namespace vh;

struct Arena
{
    unsigned char* base;
    size_t pg;
    Arena()
    {
        pg = 4096;
        base = (unsigned char*)mmap(nullptr, 4 * pg, PROT_NONE, MAP_PRIVATE | MAP_ANONYMOUS, -1, 0);
        if (base == MAP_FAILED || mprotect(base + pg, 2 * pg, PROT_READ | PROT_WRITE) != 0)
        {
            emit("{\"t\":\"inconclusive\",\"why\":\"mmap failed\"}");
            _exit(3);
        }
    }
    unsigned char* lo() const { return base + pg; }
    unsigned char* hi() const { return base + 3 * pg; }
    unsigned char* mid() const { return base + 2 * pg; }
    void fill(unsigned char c) const { memset(lo(), c, 2 * pg); }
    // first byte outside [p, p+n) that differs from c, or nullptr
    const unsigned char* stray(const unsigned char* p, size_t n, unsigned char c) const
    {
        for (const unsigned char* q = lo(); q < hi(); ++q)
            if ((q < p || q >= p + n) && *q != c)
                return q;
        return nullptr;
    }
};
static Arena AR;

// run f under the SIGSEGV/SIGBUS monitor; a fault is an out-of-range access
template <class F>
static bool guarded(OpStat& st, const std::string& wit, F f)
{
    g_fault_sig = 0;
    if (sigsetjmp(g_jmp, 1) == 0)
    {
        g_jmp_armed = 1;
        __asm__ __volatile__("" ::: "memory"); // the monitored accesses must stay between arming and disarming
        f();
        __asm__ __volatile__("" ::: "memory");
        g_jmp_armed = 0;
        return true;
    }
    g_jmp_armed = 0;
    viol(st, "fault_outside_range", "{" + wit + ",\"signal\":" + std::to_string((int)g_fault_sig) + "}");
    return false;
}

static size_t heap_slack()
{
#if defined(__SANITIZE_ADDRESS__)
    return 0;
#else
#if defined(__has_feature)
#if __has_feature(address_sanitizer)
    return 0;
#endif
#endif
    static const size_t s = getenv("VH_EXACT_HEAP") ? 0 : 64;
    return s;
#endif
}
// true if the slack after a heap block of `bytes` bytes was modified
static bool heap_overrun(const unsigned char* p, size_t bytes)
{
    for (size_t i = 0; i < heap_slack(); ++i)
        if (p[bytes + i] != 0xc3)
            return true;
    return false;
}
struct Place
{
    unsigned char* p;
    const char* where;
    bool heap;
};
// placements for a region of `bytes` bytes whose start must be a multiple of `align`
static std::vector<Place> placements(size_t bytes, size_t align, std::vector<void*>& heap)
{
    std::vector<Place> v;
    v.push_back({ AR.hi() - bytes, "flush_upper_guard", false });
    v.push_back({ AR.lo(), "flush_lower_guard", false });
    for (size_t off = 0; off < 64 + 16; ++off)
    {
        unsigned char* p = AR.mid() - 40 + off - (bytes > 64 ? bytes - 64 : 0) / 2;
        if (((uintptr_t)p % align) == 0 && p >= AR.lo() && p + bytes <= AR.hi())
            v.push_back({ p, "straddles_page_boundary", false });
    }
    if (align <= 8)
    {
        for (size_t k = 1; k < 8; ++k)
        {
            size_t off = k * align;
            if (((uintptr_t)(AR.hi() - bytes - off) % align) == 0)
                v.push_back({ AR.hi() - bytes - off, "near_upper_guard", false });
            v.push_back({ AR.lo() + off, "near_lower_guard", false });
        }
    }
    // heap block: exact size under ASan / valgrind (their red zones are the monitor); otherwise followed by a
    // canary slack that the caller checks (an overrun must not be able to corrupt the allocator and crash later)
    void* h = nullptr;
    if (posix_memalign(&h, align < sizeof(void*) ? sizeof(void*) : align, bytes + heap_slack()) == 0)
    {
        memset((unsigned char*)h + bytes, 0xc3, heap_slack());
        heap.push_back(h);
        v.push_back({ (unsigned char*)h, "exact_heap_block", true });
    }
    return v;
}

template <class T>
static void fill_src(T* src, size_t n, Rng& rng, int mode)
{
    for (size_t i = 0; i < n; ++i)
    {
        bits_t<T> u = (bits_t<T>)rng.next();
        if (mode == 1 && std::is_floating_point<T>::value)
        { // signalling NaN with random payload
            const int mant = std::numeric_limits<T>::digits - 1;
            bits_t<T> expo = (bits_t<T>)(((bits_t<T>)1 << (sizeof(T) * 8 - 1 - mant)) - 1) << mant;
            u = (bits_t<T>)((u & ~expo) | expo);
            u &= ~((bits_t<T>)1 << (mant - 1)); // quiet bit clear
            u |= 1;
        }
        src[i] = frombits<T>(u);
    }
}

// ---------------------------------------------------------------- plain loads / stores of batch<T>
template <class T>
static void plain(Rng& rng)
{
    using B = xs::batch<T, ARCH>;
    constexpr size_t N = B::size;
    constexpr size_t BY = N * sizeof(T);
    static OpStat& sl = reg("C04", "load", tname<T>());
    static OpStat& ss = reg("C04", "store", tname<T>());
    if (!sl.on && !ss.on)
        return;
    alignas(64) T src[N], o[N];
    std::vector<void*> heap;
    const size_t AL = ARCH::alignment();
    for (int aligned = 0; aligned < 2; ++aligned)
    {
        // "unaligned" means not register-aligned; the pointer must still be a valid T* (multiple of alignof(T))
        auto pls = placements(BY, aligned ? AL : alignof(T), heap);
        for (size_t pi = 0; pi < pls.size(); ++pi)
        {
            const Place& pl = pls[pi];
            for (int form = 0; form < 6; ++form)
            {
                fill_src(src, N, rng, (int)(pi + form) % 3 == 1);
                std::string wit = std::string("\"aligned\":") + (aligned ? "true" : "false") + ",\"form\":" + std::to_string(form) + ",\"placement\":\"" + pl.where + "\",\"offset_in_page\":" + std::to_string((uintptr_t)pl.p % 4096);
                unsigned cell = (unsigned)(aligned * 8 + form) * 4096 + (unsigned)((uintptr_t)pl.p % 4096);
                if (sl.on)
                {
                    if (!pl.heap)
                        AR.fill(0x5a);
                    memcpy(pl.p, src, BY);
                    mark_case("load", tname<T>(), src, BY);
                    sl.evals += N;
                    sl.cell(cell);
                    bool ok = guarded(sl, wit, [&]
                                      {
                        const T* p = (const T*)pl.p;
                        // forms 4/5: the free functions xsimd::load (tag argument; for aligned memory also the defaulted tag)
                        B b = aligned ? (form == 0 ? B::load_aligned(p) : form == 1 ? B::load(p, xs::aligned_mode {}) : form == 2 ? xs::load_aligned<ARCH>(p) : form == 3 ? xs::load_as<T, ARCH>(p, xs::aligned_mode {}) : form == 4 ? xs::load<ARCH>(p, xs::aligned_mode {}) : xs::load<ARCH>(p))
                                      : (form == 0 ? B::load_unaligned(p) : form == 1 ? B::load(p, xs::unaligned_mode {}) : form == 2 ? xs::load_unaligned<ARCH>(p) : form == 3 ? xs::load_as<T, ARCH>(p, xs::unaligned_mode {}) : xs::load<ARCH>(p, xs::unaligned_mode {}));
                        b.store_aligned(o); });
                    if (ok && memcmp(o, src, BY))
                        viol(sl, "lane_mismatch", "{" + wit + ",\"memory\":" + hexarr(src, N) + ",\"lanes\":" + hexarr(o, N) + "}");
                    if (sl.want_sample())
                        sl.samples.push_back("{" + wit + ",\"memory\":" + hexarr(src, N) + "}");
                }
                if (ss.on)
                {
                    if (!pl.heap)
                        AR.fill(0xa5);
                    else
                        memset(pl.p, 0xa5, BY);
                    mark_case("store", tname<T>(), src, BY);
                    ss.evals += N;
                    ss.cell(cell);
                    B b = B::load_aligned(src);
                    bool ok = guarded(ss, wit, [&]
                                      {
                        T* p = (T*)pl.p;
                        if (aligned)
                        {
                            if (form == 0) b.store_aligned(p);
                            else if (form == 1) b.store(p, xs::aligned_mode {});
                            else if (form == 2) xs::store_aligned(p, b);
                            else if (form == 3) xs::store_as(p, b, xs::aligned_mode {});
                            else if (form == 4) xs::store(p, b, xs::aligned_mode {});
                            else xs::store(p, b);
                        }
                        else
                        {
                            if (form == 0) b.store_unaligned(p);
                            else if (form == 1) b.store(p, xs::unaligned_mode {});
                            else if (form == 2) xs::store_unaligned(p, b);
                            else if (form == 3) xs::store_as(p, b, xs::unaligned_mode {});
                            else xs::store(p, b, xs::unaligned_mode {});
                        } });
                    if (ok)
                    {
                        if (memcmp(pl.p, src, BY))
                            viol(ss, "bytes_mismatch", "{" + wit + ",\"lanes\":" + hexarr(src, N) + ",\"memory\":" + hexarr((const T*)pl.p, N) + "}");
                        if (!pl.heap)
                        {
                            const unsigned char* q = AR.stray(pl.p, BY, 0xa5);
                            if (q)
                                viol(ss, "byte_outside_range_modified", "{" + wit + ",\"distance_from_p\":" + std::to_string((long)(q - pl.p)) + "}");
                        }
                        else if (heap_overrun(pl.p, BY))
                            viol(ss, "byte_outside_range_modified", "{" + wit + "}");
                    }
                }
            }
        }
    }
    for (void* h : heap)
        free(h);
}

// ---------------------------------------------------------------- converting load_as / store_as: range is size*sizeof(memory type)
template <class Mem, class Lane>
static void converting(Rng& rng)
{
    using BL = xs::batch<Lane, ARCH>;
    constexpr size_t N = BL::size;
    // the memory element type may be narrower or wider than the lane type: the range is always N elements of Mem
    constexpr size_t BY = N * sizeof(Mem);
    static OpStat& st = reg("C04", "load_as_store_as_converting", (std::string(tname<Mem>()) + "_mem_" + tname<Lane>() + "_lanes").c_str());
    if (!st.on)
        return;
    alignas(64) Mem src[N];
    alignas(64) Lane o[N];
    std::vector<void*> heap;
    for (int aligned = 0; aligned < 2; ++aligned)
    {
        auto pls = placements(BY, aligned ? ARCH::alignment() : alignof(Mem), heap);
        for (const Place& pl : pls)
        {
            for (size_t i = 0; i < N; ++i)
            {
                // values representable in both types (the conversion of other values is C06's business)
                const bool narrow = sizeof(Mem) == 1 || sizeof(Lane) == 1;
                const bool sgn = std::is_signed<Mem>::value && std::is_signed<Lane>::value;
                const int span = narrow ? 100 : 1000;
                src[i] = sgn ? (Mem)((int)(rng.next() % (2 * span + 1)) - span) : (Mem)(int)(rng.next() % (span + 1));
            }
            std::string wit = std::string("\"aligned\":") + (aligned ? "true" : "false") + ",\"placement\":\"" + pl.where + "\",\"offset_in_page\":" + std::to_string((uintptr_t)pl.p % 4096);
            if (!pl.heap)
                AR.fill(0x5a);
            memcpy(pl.p, src, BY);
            mark_case("load_as", st.type.c_str(), src, BY);
            st.evals += 2 * N;
            st.cell((unsigned)aligned * 4096 + (unsigned)((uintptr_t)pl.p % 4096));
            bool ok = guarded(st, wit, [&]
                              {
                BL b = aligned ? xs::load_as<Lane, ARCH>((const Mem*)pl.p, xs::aligned_mode {}) : xs::load_as<Lane, ARCH>((const Mem*)pl.p, xs::unaligned_mode {});
                b.store_aligned(o); });
            if (ok)
                for (size_t i = 0; i < N; ++i)
                    if (o[i] != (Lane)src[i])
                    {
                        viol(st, "lane_mismatch", "{" + wit + ",\"lane\":" + std::to_string(i) + "}");
                        break;
                    }
            if (!pl.heap)
                AR.fill(0xa5);
            BL b = BL::load_aligned(o);
            ok = guarded(st, wit, [&]
                         {
                if (aligned) xs::store_as((Mem*)pl.p, b, xs::aligned_mode {});
                else xs::store_as((Mem*)pl.p, b, xs::unaligned_mode {}); });
            if (ok)
            {
                if (memcmp(pl.p, src, BY))
                    viol(st, "bytes_mismatch", "{" + wit + "}");
                if ((!pl.heap && AR.stray(pl.p, BY, 0xa5)) || (pl.heap && heap_overrun(pl.p, BY)))
                    viol(st, "byte_outside_range_modified", "{" + wit + "}");
            }
        }
    }
    for (void* h : heap)
        free(h);
}

// ---------------------------------------------------------------- batch_bool <-> bool arrays: exactly N bytes
template <class T>
static void bools(Rng& rng)
{
    using BB = xs::batch_bool<T, ARCH>;
    constexpr size_t N = BB::size;
    static OpStat& st = reg("C04", "bool_load_store", tname<T>());
    if (!st.on)
        return;
    bool bs[N];
    std::vector<void*> heap;
    for (int aligned = 0; aligned < 2; ++aligned)
    {
        auto pls = placements(N, aligned ? ARCH::alignment() : 1, heap);
        for (size_t pi = 0; pi < pls.size(); ++pi)
        {
            const Place& pl = pls[pi];
            const int form = (int)(pi & 1) ^ (int)(rng.next() & 1); // 0: batch_bool members, 1: xsimd::load_as / store_as with a bool pointer
            for (size_t i = 0; i < N; ++i)
                bs[i] = rng.next() & 1;
            std::string wit = std::string("\"aligned\":") + (aligned ? "true" : "false") + ",\"placement\":\"" + pl.where + "\",\"offset_in_page\":" + std::to_string((uintptr_t)pl.p % 4096) + ",\"form\":" + std::to_string(form) + ",\"bools\":" + hexarr(bs, N);
            if (!pl.heap)
                AR.fill(0x00); // canary must be a valid bool for the load side; 0 everywhere else
            memcpy(pl.p, bs, N);
            mark_case("bool_load", tname<T>(), bs, N);
            st.evals += 2 * N;
            st.cell((unsigned)aligned * 4096 + (unsigned)((uintptr_t)pl.p % 4096));
            bool got[N];
            bool ok = guarded(st, wit, [&]
                              {
                const bool* bp = (const bool*)pl.p;
                BB m = form == 0 ? (aligned ? BB::load_aligned(bp) : BB::load_unaligned(bp))
                                 : (aligned ? xs::load_as<T, ARCH>(bp, xs::aligned_mode {}) : xs::load_as<T, ARCH>(bp, xs::unaligned_mode {}));
                for (size_t i = 0; i < N; ++i) got[i] = m.get(i); });
            if (ok && memcmp(got, bs, N))
                viol(st, "lane_mismatch", "{" + wit + ",\"got\":" + hexarr(got, N) + "}");
            if (!pl.heap)
                AR.fill(0xa5);
            BB m = BB::load_unaligned(bs);
            ok = guarded(st, wit, [&]
                         {
                bool* bp = (bool*)pl.p;
                if (form == 0)
                {
                    if (aligned) m.store_aligned(bp);
                    else m.store_unaligned(bp);
                }
                else
                {
                    if (aligned) xs::store_as(bp, m, xs::aligned_mode {});
                    else xs::store_as(bp, m, xs::unaligned_mode {});
                } });
            if (ok)
            {
                if (memcmp(pl.p, bs, N))
                    viol(st, "bytes_mismatch", "{" + wit + "}");
                if ((!pl.heap && AR.stray(pl.p, N, 0xa5)) || (pl.heap && heap_overrun(pl.p, N)))
                    viol(st, "byte_outside_range_modified", "{" + wit + "}");
            }
        }
    }
    for (void* h : heap)
        free(h);
}

// ---------------------------------------------------------------- complex interleaved loads / stores (also serves C16)
template <class T>
static void complexes(Rng& rng, const char* prop)
{
    using C = std::complex<T>;
    using B = xs::batch<C, ARCH>;
    using BR = xs::batch<T, ARCH>;
    constexpr size_t N = B::size;
    constexpr size_t BY = N * sizeof(C);
    OpStat& st = reg(prop, "complex_load_store", tname<T>());
    if (!st.on)
        return;
    alignas(64) T flat[2 * N], re[N], im[N];
    std::vector<void*> heap;
    for (int aligned = 0; aligned < 2; ++aligned)
    {
        auto pls = placements(BY, aligned ? ARCH::alignment() : alignof(T), heap);
        for (size_t pi = 0; pi < pls.size(); ++pi)
        {
            const Place& pl = pls[pi];
            const int form = (int)((pi + rng.next()) % 3); // 0: load_aligned/unaligned members, 1: tag forms, 2: xsimd::load_as / store_as
            fill_src(flat, 2 * N, rng, 0);
            std::string wit = std::string("\"aligned\":") + (aligned ? "true" : "false") + ",\"form\":" + std::to_string(form) + ",\"placement\":\"" + pl.where + "\",\"offset_in_page\":" + std::to_string((uintptr_t)pl.p % 4096) + ",\"memory\":" + hexarr(flat, 2 * N);
            if (!pl.heap)
                AR.fill(0x5a);
            memcpy(pl.p, flat, BY);
            mark_case("complex_load", tname<T>(), flat, BY);
            st.evals += 4 * N;
            st.cell((unsigned)aligned * 4096 + (unsigned)((uintptr_t)pl.p % 4096));
            bool ok = guarded(st, wit, [&]
                              {
                const C* cp = (const C*)pl.p;
                B b = form == 0 ? (aligned ? B::load_aligned(cp) : B::load_unaligned(cp))
                    : form == 1 ? (aligned ? B::load(cp, xs::aligned_mode {}) : B::load(cp, xs::unaligned_mode {}))
                                : (aligned ? xs::load_as<C, ARCH>(cp, xs::aligned_mode {}) : xs::load_as<C, ARCH>(cp, xs::unaligned_mode {}));
                b.real().store_aligned(re);
                b.imag().store_aligned(im); });
            if (ok)
                for (size_t i = 0; i < N; ++i)
                    if (!same_bits(re[i], flat[2 * i]) || !same_bits(im[i], flat[2 * i + 1]))
                    {
                        viol(st, "lane_mismatch", "{" + wit + ",\"lane\":" + std::to_string(i) + ",\"re\":" + hexarr(re, N) + ",\"im\":" + hexarr(im, N) + "}");
                        break;
                    }
            if (!pl.heap)
                AR.fill(0xa5);
            B b(BR::load_aligned(re), BR::load_aligned(im));
            ok = guarded(st, wit, [&]
                         {
                C* cp = (C*)pl.p;
                if (form == 0)
                {
                    if (aligned) b.store_aligned(cp);
                    else b.store_unaligned(cp);
                }
                else if (form == 1)
                {
                    if (aligned) b.store(cp, xs::aligned_mode {});
                    else b.store(cp, xs::unaligned_mode {});
                }
                else
                {
                    if (aligned) xs::store_as(cp, b, xs::aligned_mode {});
                    else xs::store_as(cp, b, xs::unaligned_mode {});
                } });
            if (ok)
            {
                if (memcmp(pl.p, flat, BY))
                    viol(st, "bytes_mismatch", "{" + wit + "}");
                if ((!pl.heap && AR.stray(pl.p, BY, 0xa5)) || (pl.heap && heap_overrun(pl.p, BY)))
                    viol(st, "byte_outside_range_modified", "{" + wit + "}");
            }
        }
    }
    for (void* h : heap)
        free(h);
    // split real / imaginary arrays
    {
        fill_src(re, N, rng, 0);
        fill_src(im, N, rng, 0);
        B b = B::load_aligned(re, im);
        alignas(64) T r2[N], i2[N];
        b.store_aligned(r2, i2);
        st.evals += 2 * N;
        if (memcmp(re, r2, sizeof re) || memcmp(im, i2, sizeof im))
            viol(st, "split_arrays_mismatch", "{\"re\":" + hexarr(re, N) + ",\"got_re\":" + hexarr(r2, N) + "}");
        {
            // the same through the unaligned split-array forms, at an element offset that is not register-aligned
            alignas(64) T ure[2 * N + 1], uim[2 * N + 1], ur2[2 * N + 1], ui2[2 * N + 1];
            memcpy(ure + 1, re, sizeof re);
            memcpy(uim + 1, im, sizeof im);
            memset(ur2, 0x77, sizeof ur2);
            memset(ui2, 0x77, sizeof ui2);
            B bu = B::load_unaligned(ure + 1, uim + 1);
            bu.store_unaligned(ur2 + 1, ui2 + 1);
            st.evals += 2 * N;
            const unsigned char* c0 = (const unsigned char*)ur2;
            const unsigned char* c1 = (const unsigned char*)(ur2 + 1 + N);
            const unsigned char* c2 = (const unsigned char*)ui2;
            const unsigned char* c3 = (const unsigned char*)(ui2 + 1 + N);
            bool canary = true;
            for (size_t i = 0; i < sizeof(T); ++i)
                canary = canary && c0[i] == 0x77 && c1[i] == 0x77 && c2[i] == 0x77 && c3[i] == 0x77;
            if (memcmp(re, ur2 + 1, sizeof re) || memcmp(im, ui2 + 1, sizeof im) || !canary)
                viol(st, "split_arrays_unaligned_mismatch", "{\"re\":" + hexarr(re, N) + ",\"got_re\":" + hexarr(ur2 + 1, N) + ",\"neighbours_intact\":" + (canary ? "true" : "false") + "}");
        }
        for (size_t i = 0; i < N; ++i)
        {
            C c = b.get(i);
            T cr = c.real(), ci = c.imag();
            if (!same_bits(cr, re[i]) || !same_bits(ci, im[i]))
            {
                viol(st, "get_lane", "{\"lane\":" + std::to_string(i) + "}");
                break;
            }
        }
    }
}

// ---------------------------------------------------------------- converting complex load_as / store_as (float <-> double)
// memory: N elements of std::complex<Mem>; lanes: batch<std::complex<Lane>>
template <class Mem, class Lane>
static void complex_converting(Rng& rng, const char* prop)
{
    using CM = std::complex<Mem>;
    using CLn = std::complex<Lane>;
    using B = xs::batch<CLn, ARCH>;
    using BR = xs::batch<Lane, ARCH>;
    constexpr size_t N = B::size;
    constexpr size_t BY = N * sizeof(CM);
    OpStat& st = reg(prop, "complex_load_as_store_as_converting", (std::string(tname<Mem>()) + "_mem_" + tname<Lane>() + "_lanes").c_str());
    if (!st.on)
        return;
    alignas(64) Mem flat[2 * N];
    alignas(64) Lane re[N], im[N];
    std::vector<void*> heap;
    for (int aligned = 0; aligned < 2; ++aligned)
    {
        auto pls = placements(BY, aligned ? ARCH::alignment() : alignof(Mem), heap);
        for (const Place& pl : pls)
        {
            for (size_t i = 0; i < 2 * N; ++i)
                flat[i] = (Mem)((int)(rng.next() % 4001) - 2000) / (Mem)8; // exactly representable in float and double
            std::string wit = std::string("\"aligned\":") + (aligned ? "true" : "false") + ",\"placement\":\"" + pl.where + "\",\"offset_in_page\":" + std::to_string((uintptr_t)pl.p % 4096) + ",\"memory\":" + hexarr(flat, 2 * N);
            if (!pl.heap)
                AR.fill(0x5a);
            memcpy(pl.p, flat, BY);
            mark_case("complex_load_as", st.type.c_str(), flat, BY);
            st.evals += 4 * N;
            st.cell((unsigned)aligned * 4096 + (unsigned)((uintptr_t)pl.p % 4096));
            bool ok = guarded(st, wit, [&]
                              {
                const CM* cp = (const CM*)pl.p;
                B b = aligned ? xs::load_as<CLn, ARCH>(cp, xs::aligned_mode {}) : xs::load_as<CLn, ARCH>(cp, xs::unaligned_mode {});
                b.real().store_aligned(re);
                b.imag().store_aligned(im); });
            if (ok)
                for (size_t i = 0; i < N; ++i)
                    if (re[i] != (Lane)flat[2 * i] || im[i] != (Lane)flat[2 * i + 1])
                    {
                        viol(st, "lane_mismatch", "{" + wit + ",\"lane\":" + std::to_string(i) + ",\"re\":" + hexarr(re, N) + ",\"im\":" + hexarr(im, N) + "}");
                        break;
                    }
            for (size_t i = 0; i < N; ++i)
            {
                re[i] = (Lane)flat[2 * i];
                im[i] = (Lane)flat[2 * i + 1];
            }
            if (!pl.heap)
                AR.fill(0xa5);
            else
                memset(pl.p, 0xa5, BY);
            B b(BR::load_aligned(re), BR::load_aligned(im));
            mark_case("complex_store_as", st.type.c_str(), flat, BY);
            ok = guarded(st, wit, [&]
                         {
                CM* cp = (CM*)pl.p;
                if (aligned) xs::store_as(cp, b, xs::aligned_mode {});
                else xs::store_as(cp, b, xs::unaligned_mode {}); });
            if (ok)
            {
                if (memcmp(pl.p, flat, BY))
                    viol(st, "bytes_mismatch", "{" + wit + "}");
                if ((!pl.heap && AR.stray(pl.p, BY, 0xa5)) || (pl.heap && heap_overrun(pl.p, BY)))
                    viol(st, "byte_outside_range_modified", "{" + wit + "}");
            }
        }
    }
    for (void* h : heap)
        free(h);
}

// ---------------------------------------------------------------- gather / scatter
// IT: index element type (signed or unsigned, same width as T).  With a signed index type the base pointer is also
// placed in the middle of the table, so that half of the indices are negative.
template <class T, class IT = xs::as_integer_t<T>>
static void gather_scatter(Rng& rng)
{
    using B = xs::batch<T, ARCH>;
    using BI = xs::batch<IT, ARCH>;
    constexpr size_t N = B::size;
    constexpr bool SIGNED_IDX = std::is_signed<IT>::value;
    static OpStat& sg = reg("C04", SIGNED_IDX ? "gather" : "gather_unsigned_index", tname<T>());
    static OpStat& sc = reg("C04", SIGNED_IDX ? "scatter" : "scatter_unsigned_index", tname<T>());
    if (!sg.on && !sc.on)
        return;
    constexpr size_t M = N + 37;
    alignas(64) T loc[M], src[N], o[N];
    alignas(64) IT idx[N];
    size_t kk[N]; // element of the table addressed by lane i
    for (int where = 0; where < (SIGNED_IDX ? 4 : 2); ++where)
        for (int pattern = 0; pattern < 6; ++pattern)
        {
            T* tab = (where & 1) ? (T*)(AR.hi() - M * sizeof(T)) : (T*)AR.lo();
            const long boff = (where & 2) ? (long)(M / 2) : 0; // base pointer = tab + boff, index = element - boff
            T* base = tab + boff;
            fill_src(loc, M, rng, 0);
            fill_src(src, N, rng, 0);
            for (size_t i = 0; i < N; ++i)
                kk[i] = pattern == 0 ? (IT)(rng.next() % M) : pattern == 1 ? (IT)(M - 1) : pattern == 2 ? (IT)0 : pattern == 3 ? (IT)((i * 7 + 3) % M)
                    : pattern == 4                                                                                              ? (IT)(M - 1 - i)
                                                                                                                                : (IT)(i == 0 ? M - 1 : (i == N - 1 ? 0 : rng.next() % M));
            for (size_t i = 0; i < N; ++i)
                idx[i] = (IT)((long)kk[i] - boff);
            std::string wit = std::string("\"table\":\"") + ((where & 1) ? "flush_upper_guard" : "flush_lower_guard") + "\",\"base_offset_elements\":" + std::to_string(boff) + ",\"index\":" + hexarr(idx, N);
            if (sg.on)
            {
                AR.fill(0x5a);
                memcpy(tab, loc, sizeof loc);
                mark_case("gather", tname<T>(), idx, sizeof idx);
                sg.evals += N;
                sg.cell((unsigned)(where * 8 + pattern));
                bool ok = guarded(sg, wit, [&]
                                  { B::gather(base, BI::load_aligned(idx)).store_aligned(o); });
                if (ok)
                    for (size_t i = 0; i < N; ++i)
                        if (!same_bits(o[i], loc[kk[i]]))
                        {
                            viol(sg, "lane_mismatch", "{" + wit + ",\"lane\":" + std::to_string(i) + "}");
                            break;
                        }
            }
            if (sc.on)
            {
                // scatter needs pairwise distinct indices for a defined result
                bool distinct = true;
                for (size_t i = 0; i < N; ++i)
                    for (size_t j = 0; j < i; ++j)
                        if (kk[i] == kk[j])
                            distinct = false;
                if (!distinct)
                    continue;
                AR.fill(0xa5);
                mark_case("scatter", tname<T>(), idx, sizeof idx);
                sc.evals += N;
                sc.cell((unsigned)(where * 8 + pattern));
                B v = B::load_aligned(src);
                bool ok = guarded(sc, wit, [&]
                                  { v.scatter(base, BI::load_aligned(idx)); });
                if (ok)
                {
                    T canary;
                    memset(&canary, 0xa5, sizeof canary);
                    for (size_t k = 0; k < M; ++k)
                    {
                        bool hit = false;
                        for (size_t i = 0; i < N; ++i)
                            if (kk[i] == k)
                            {
                                hit = true;
                                if (!same_bits(tab[k], src[i]))
                                    viol(sc, "element_mismatch", "{" + wit + ",\"element\":" + std::to_string(k) + "}");
                            }
                        if (!hit && !same_bits(tab[k], canary))
                            viol(sc, "unindexed_element_modified", "{" + wit + ",\"element\":" + std::to_string(k) + "}");
                    }
                    if (AR.stray((unsigned char*)tab, M * sizeof(T), 0xa5))
                        viol(sc, "byte_outside_range_modified", "{" + wit + "}");
                }
            }
        }
}

// ---------------------------------------------------------------- converting gather / scatter: memory type U, lane type T
template <class T, class U>
static void gather_scatter_convert(Rng& rng)
{
    using B = xs::batch<T, ARCH>;
    using IT = xs::as_integer_t<T>;
    using BI = xs::batch<IT, ARCH>;
    constexpr size_t N = B::size;
    static OpStat& sg = reg("C04", "gather_converting", (std::string(tname<U>()) + "_mem_" + tname<T>() + "_lanes").c_str());
    static OpStat& sc = reg("C04", "scatter_converting", (std::string(tname<U>()) + "_mem_" + tname<T>() + "_lanes").c_str());
    if (!sg.on && !sc.on)
        return;
    constexpr size_t M = N + 29;
    alignas(64) U loc[M];
    alignas(64) T src[N], o[N];
    alignas(64) IT idx[N];
    for (int where = 0; where < 2; ++where)
        for (int pattern = 0; pattern < 5; ++pattern)
        {
            U* tab = where ? (U*)(AR.hi() - M * sizeof(U)) : (U*)AR.lo();
            // pairwise distinct also after conversion.  Floating sources carry a fraction (and, for double, bits a float cannot
            // hold) and both signs: the conversion must be the library's usual one, static_cast<lane type>(element), i.e.
            // truncation toward zero for float -> integer, on every architecture
            for (size_t k = 0; k < M; ++k)
            {
                double v = sizeof(U) == 1 ? (double)(1 + 3 * k) : (double)(1000 + 3 * k); // must be representable in the memory type
                if (std::is_floating_point<U>::value)
                {
                    v += (double)(k % 4) * 0.25 + (sizeof(U) == 8 ? 1e-9 * (double)(k + 1) : 0.0);
                    if ((k & 1) && std::is_signed<T>::value)
                        v = -v;
                }
                loc[k] = (U)v;
            }
            for (size_t i = 0; i < N; ++i)
            {
                double w = (double)(50 + 7 * i);
                if (std::is_floating_point<T>::value)
                {
                    w += (double)(i % 4) * 0.25 + (sizeof(T) == 8 ? 1e-9 * (double)(i + 1) : 0.0);
                    if ((i & 1) && std::is_signed<U>::value)
                        w = -w;
                }
                src[i] = (T)w;
                idx[i] = pattern == 0 ? (IT)(rng.next() % M) : pattern == 1 ? (IT)((i * 7 + 3) % M) : pattern == 2 ? (IT)(M - 1 - i) : pattern == 3 ? (IT)(2 * i + 1 < M ? 2 * i + 1 : i) : (IT)i;
            }
            std::string wit = std::string("\"table\":\"") + (where ? "flush_upper_guard" : "flush_lower_guard") + "\",\"index\":" + hexarr(idx, N);
            if (sg.on)
            {
                AR.fill(0x5a);
                memcpy(tab, loc, sizeof loc);
                mark_case("gather_converting", sg.type.c_str(), idx, sizeof idx);
                sg.evals += N;
                sg.cell((unsigned)(where * 8 + pattern));
                bool ok = guarded(sg, wit, [&]
                                  { B::gather(tab, BI::load_aligned(idx)).store_aligned(o); });
                if (ok)
                    for (size_t i = 0; i < N; ++i)
                        if (!(o[i] == (T)loc[(size_t)idx[i]]))
                        {
                            viol(sg, "lane_mismatch", "{" + wit + ",\"lane\":" + std::to_string(i) + ",\"got\":\"" + hexv(o[i]) + "\",\"expected_element\":" + std::to_string((size_t)idx[i]) + ",\"element_value\":" + std::to_string((double)loc[(size_t)idx[i]]) + ",\"expected\":\"" + hexv((T)loc[(size_t)idx[i]]) + "\"}");
                            break;
                        }
            }
            if (sc.on)
            {
                bool distinct = true;
                for (size_t i = 0; i < N; ++i)
                    for (size_t j = 0; j < i; ++j)
                        if (idx[i] == idx[j])
                            distinct = false;
                if (!distinct)
                    continue;
                AR.fill(0xa5);
                mark_case("scatter_converting", sc.type.c_str(), idx, sizeof idx);
                sc.evals += N;
                sc.cell((unsigned)(where * 8 + pattern));
                B v = B::load_aligned(src);
                bool ok = guarded(sc, wit, [&]
                                  { v.scatter(tab, BI::load_aligned(idx)); });
                if (ok)
                {
                    U canary;
                    memset(&canary, 0xa5, sizeof canary);
                    for (size_t k = 0; k < M; ++k)
                    {
                        bool hit = false;
                        for (size_t i = 0; i < N; ++i)
                            if ((size_t)idx[i] == k)
                            {
                                hit = true;
                                if (!(tab[k] == (U)src[i]))
                                    viol(sc, "element_mismatch", "{" + wit + ",\"element\":" + std::to_string(k) + "}");
                            }
                        if (!hit && !same_bits(tab[k], canary))
                            viol(sc, "unindexed_element_modified", "{" + wit + ",\"element\":" + std::to_string(k) + "}");
                    }
                    if (AR.stray((unsigned char*)tab, M * sizeof(U), 0xa5))
                        viol(sc, "byte_outside_range_modified", "{" + wit + "}");
                }
            }
        }
}

// ---------------------------------------------------------------- gather / scatter with unsigned 32-bit indices >= 2^31
// "src[index]" with an unsigned index type means the element 2^31 .. 2^32-1 places ABOVE the base pointer; the x86 gather
// and scatter instructions sign-extend 32-bit indices and would address the element 2^32 places lower instead.  Such a table
// has 8..32 GiB, so the monitor reserves 80 GiB of PROT_NONE address space (MAP_NORESERVE: no memory is committed), puts the
// base pointer in its middle and makes only the five pages that the valid indices address readable/writable: any access
// through a sign-extended (or otherwise mangled) index lands in the PROT_NONE reservation and faults under the SIGSEGV
// monitor.  T: lane type, U: memory element type (T != U: the converting kernels), index type uint32_t.
struct BigArena
{
    unsigned char* res = nullptr;
    static constexpr size_t GiB = (size_t)1 << 30;
    bool ok()
    {
        if (!res)
        {
            res = (unsigned char*)mmap(nullptr, 80 * GiB, PROT_NONE, MAP_PRIVATE | MAP_ANONYMOUS | MAP_NORESERVE, -1, 0);
            if (res == MAP_FAILED)
                res = (unsigned char*)(uintptr_t)1;
        }
        return res != (unsigned char*)(uintptr_t)1;
    }
    unsigned char* base() const { return res + 40 * GiB; }
};
static BigArena BIG;

template <class T, class U>
static void gather_scatter_high_index(Rng& rng)
{
    using B = xs::batch<T, ARCH>;
    using IT = uint32_t;
    using BI = xs::batch<IT, ARCH>;
    static_assert(sizeof(T) == 4, "32-bit lanes: the index batch has the lane count of the value batch");
    constexpr size_t N = B::size;
    const std::string tn = std::is_same<T, U>::value ? std::string(tname<T>()) : std::string(tname<U>()) + "_mem_" + tname<T>() + "_lanes";
    static OpStat& sg = reg("C04", "gather_high_unsigned_index", tn.c_str());
    static OpStat& sc = reg("C04", "scatter_high_unsigned_index", tn.c_str());
    if (!sg.on && !sc.on)
        return;
    if (!BIG.ok())
    {
        note_na("C04", "gather_high_unsigned_index", tn.c_str(), "could not reserve 80 GiB of PROT_NONE address space in this environment");
        return;
    }
    U* base = (U*)BIG.base();
    const size_t pg = 4096, per = pg / sizeof(U);
    // windows of one page each: first elements of the table, just below / at / above 2^31, at 3*2^30, and the last page below 2^32
    const uint64_t win[5] = { 0, ((uint64_t)1 << 31) - per, (uint64_t)1 << 31, (uint64_t)3 << 30, ((uint64_t)1 << 32) - per };
    for (uint64_t w : win)
        if (mprotect((unsigned char*)(base + w), pg, PROT_READ | PROT_WRITE) != 0)
        {
            note_na("C04", "gather_high_unsigned_index", tn.c_str(), "mprotect inside the reservation failed");
            return;
        }
    alignas(64) IT idx[N];
    alignas(64) T src[N], o[N];
    for (int pattern = 0; pattern < 12; ++pattern)
    {
        // element values: pairwise distinct small integers, representable in both types
        for (uint64_t w : win)
            for (size_t k = 0; k < per; ++k)
                base[w + k] = (U)(double)(1 + ((w >> 20) % 7919 + 3 * k) % 30000);
        bool distinct = true;
        for (size_t i = 0; i < N; ++i)
        {
            // patterns 0..4: every lane in one window; 5..: lanes spread over the windows (high and low indices in one batch)
            int wsel = pattern < 5 ? pattern : (int)(rng.next() % 5);
            if (pattern == 5)
                wsel = 2 + (int)(i % 3);
            if (pattern == 6)
                wsel = (i == 0) ? 4 : 0;
            if (pattern == 7)
                wsel = (i == N - 1) ? 2 : 1;
            size_t k = pattern == 8 ? per - 1 - i % per : (size_t)(rng.next() % per);
            if (wsel == 4 && (pattern & 1))
                k = per - 1 - (i % per); // includes index 0xffffffff
            idx[i] = (IT)(win[wsel] + k);
            for (size_t j = 0; j < i; ++j)
                if (idx[j] == idx[i])
                    distinct = false;
            src[i] = (T)(double)(20000 + 11 * i); // representable in every memory type of these forms (int16 included)
        }
        std::string wit = std::string("\"table\":\"80 GiB PROT_NONE reservation, base in the middle, 5 accessible pages\",\"index\":") + hexarr(idx, N);
        if (sg.on)
        {
            mark_case("gather_high_unsigned_index", tn.c_str(), idx, sizeof idx);
            sg.evals += N;
            sg.cell((unsigned)pattern);
            bool ok = guarded(sg, wit, [&]
                              { B::gather(base, BI::load_aligned(idx)).store_aligned(o); });
            if (ok)
                for (size_t i = 0; i < N; ++i)
                    if (!(o[i] == (T)base[idx[i]]))
                    {
                        viol(sg, "lane_mismatch", "{" + wit + ",\"lane\":" + std::to_string(i) + ",\"got\":\"" + hexv(o[i]) + "\",\"expected\":\"" + hexv((T)base[idx[i]]) + "\"}");
                        break;
                    }
            if (sg.want_sample())
                sg.samples.push_back("{" + wit + "}");
        }
        if (sc.on && distinct)
        {
            U canary;
            memset(&canary, 0xa5, sizeof canary);
            for (uint64_t w : win)
                memset((void*)(base + w), 0xa5, pg);
            mark_case("scatter_high_unsigned_index", tn.c_str(), idx, sizeof idx);
            sc.evals += N;
            sc.cell((unsigned)pattern);
            B v = B::load_aligned(src);
            bool ok = guarded(sc, wit, [&]
                              { v.scatter(base, BI::load_aligned(idx)); });
            if (ok)
                for (uint64_t w : win)
                    for (size_t k = 0; k < per; ++k)
                    {
                        bool hit = false;
                        for (size_t i = 0; i < N; ++i)
                            if ((uint64_t)idx[i] == w + k)
                            {
                                hit = true;
                                if (!(base[w + k] == (U)src[i]))
                                    viol(sc, "element_mismatch", "{" + wit + ",\"element\":" + std::to_string(w + k) + "}");
                            }
                        if (!hit && !same_bits(base[w + k], canary))
                            viol(sc, "unindexed_element_modified", "{" + wit + ",\"element\":" + std::to_string(w + k) + "}");
                    }
        }
    }
    for (uint64_t w : win)
        mprotect((unsigned char*)(base + w), pg, PROT_NONE);
}

// ---------------------------------------------------------------- broadcast, element-list constructor, get(i)
template <class T, size_t... Is>
static void ctor_list(const T* a, T* o, std::index_sequence<Is...>)
{
    xs::batch<T, ARCH> b(a[Is]...);
    b.store_aligned(o);
}
template <class T>
static void constructors(Rng& rng)
{
    using B = xs::batch<T, ARCH>;
    constexpr size_t N = B::size;
    static OpStat& st = reg("C04", "broadcast_ctor_get", tname<T>());
    if (!st.on)
        return;
    alignas(64) T a[N], o[N];
    for (int rep = 0; rep < 32; ++rep)
    {
        fill_src(a, N, rng, rep % 3 == 1);
        mark_case("ctor", tname<T>(), a, sizeof a);
        ctor_list<T>(a, o, std::make_index_sequence<N> {});
        st.evals += 3 * N;
        st.cell((unsigned)rep);
        if (memcmp(a, o, sizeof a))
            viol(st, "element_list_order", "{\"args\":" + hexarr(a, N) + ",\"lanes\":" + hexarr(o, N) + "}");
        B b = B::load_aligned(a);
        for (size_t i = 0; i < N; ++i)
        {
            T g = b.get(i);
            if (!same_bits(g, a[i]))
            {
                viol(st, "get_lane", "{\"i\":" + std::to_string(i) + ",\"lanes\":" + hexarr(a, N) + ",\"got\":\"" + hexv(g) + "\"}");
                break;
            }
        }
        B bc(a[0]);
        bc.store_aligned(o);
        B bc2 = B::broadcast(a[0]);
        alignas(64) T o2[N];
        bc2.store_aligned(o2);
        for (size_t i = 0; i < N; ++i)
            if (!same_bits(o[i], a[0]) || !same_bits(o2[i], a[0]))
            {
                viol(st, "broadcast", "{\"value\":\"" + hexv(a[0]) + "\",\"lanes\":" + hexarr(o, N) + "}");
                break;
            }
    }
}

template <class T>
static void run_type(Rng& rng)
{
    plain<T>(rng);
    bools<T>(rng);
    constructors<T>(rng);
}

void vh::unit_main()
{
    Rng rng(mix(ctx().seed, 404));
    const bool c16 = ctx().prop && strcmp(ctx().prop, "C16") == 0;
    long reps = budget(3, 40);
    for (long rep = 0; rep < reps; ++rep)
    {
        if (!c16)
        {
            run_type<int8_t>(rng);
            run_type<uint8_t>(rng);
            run_type<int16_t>(rng);
            run_type<uint16_t>(rng);
            run_type<int32_t>(rng);
            run_type<uint32_t>(rng);
            run_type<int64_t>(rng);
            run_type<uint64_t>(rng);
            run_type<float>(rng);
            run_type<double>(rng);
            gather_scatter<int32_t>(rng);
            gather_scatter<uint32_t>(rng);
            gather_scatter<int64_t>(rng);
            gather_scatter<uint64_t>(rng);
            gather_scatter<float>(rng);
            gather_scatter<double>(rng);
            gather_scatter<int32_t, uint32_t>(rng);
            gather_scatter<float, uint32_t>(rng);
            gather_scatter<double, uint64_t>(rng);
            gather_scatter<uint64_t, uint64_t>(rng);
            gather_scatter_high_index<int32_t, int32_t>(rng);
            gather_scatter_high_index<uint32_t, uint32_t>(rng);
            gather_scatter_high_index<float, float>(rng);
            gather_scatter_high_index<float, double>(rng);
            gather_scatter_high_index<int32_t, double>(rng);
            gather_scatter_high_index<float, int16_t>(rng);
            gather_scatter_convert<float, double>(rng);
            gather_scatter_convert<int32_t, double>(rng);
            gather_scatter_convert<double, float>(rng);
            gather_scatter_convert<double, int32_t>(rng);
            gather_scatter_convert<float, int16_t>(rng);
            gather_scatter_convert<int32_t, float>(rng);
            gather_scatter_convert<int64_t, int32_t>(rng);
            gather_scatter_convert<uint32_t, uint8_t>(rng);
            gather_scatter_convert<int64_t, double>(rng);
            converting<int32_t, float>(rng);
            converting<float, int32_t>(rng);
            converting<int64_t, double>(rng);
            converting<uint8_t, int8_t>(rng);
            converting<int16_t, uint16_t>(rng);
            // memory element narrower / wider than the lane
            converting<float, double>(rng);
            converting<double, float>(rng);
            converting<int8_t, int32_t>(rng);
            converting<int32_t, int8_t>(rng);
            converting<uint16_t, float>(rng);
            converting<double, int16_t>(rng);
            converting<uint8_t, uint64_t>(rng);
            converting<int64_t, int16_t>(rng);
        }
        complex_converting<float, double>(rng, c16 ? "C16" : "C04");
        complex_converting<double, float>(rng, c16 ? "C16" : "C04");
        complexes<float>(rng, c16 ? "C16" : "C04");
        complexes<double>(rng, c16 ? "C16" : "C04");
    }
}
VH_MAIN()
