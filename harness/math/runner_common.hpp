// Runner side of the math monitors: loads one shared object per architecture, computes each
// reference value once, lets every architecture evaluate the same arguments, and applies the
// oracles of C10 / C11 / C12 / C13 / C14 (DESIGN.md sections 4, 6, 8).
#pragma once
#include "mathfn.hpp"
#include <atomic>
#include <cfloat>
#include <cmath>
#include <cstdarg>
#include <cstdint>
#include <cstdio>
#include <cstdlib>
#include <cstring>
#include <dlfcn.h>
#include <fcntl.h>
#include <functional>
#include <map>
#include <mutex>
#include <quadmath.h>
#include <string>
#include <thread>
#include <time.h>
#include <unistd.h>
#include <vector>

typedef long double ld;
typedef __float128 f128;

struct Lib
{
    std::string arch;
    void* h;
    vunit_lanes_t lanes;
    vunit_eval32_t eval32;
    vunit_eval64_t eval64;
    vunit_loop_reset_t loop_reset;
    vunit_loop_count_t loop_count;
    vunit_loop_exceeded_t loop_exceeded;
};

struct Ctx
{
    uint64_t seed = 1;
    int tier = 0;
    int fd = 1;
    std::string prop = "C10";
    std::string only_op, only_type;
    double scale = 1.0;
    std::vector<Lib> libs;
    unsigned nthreads = 16;
};
extern Ctx g;

// ---------------------------------------------------------------- output (same JSONL protocol as the exe units)
inline std::mutex& out_mutex()
{
    static std::mutex m;
    return m;
}
inline void emit(const std::string& line)
{
    std::lock_guard<std::mutex> lk(out_mutex());
    std::string l = line + "\n";
    const char* p = l.data();
    size_t n = l.size();
    while (n)
    {
        ssize_t w = ::write(g.fd, p, n);
        if (w <= 0)
            break;
        p += w;
        n -= (size_t)w;
    }
}
inline std::string jstr(const std::string& s)
{
    std::string o = "\"";
    for (char c : s)
    {
        if (c == '"' || c == '\\')
        {
            o += '\\';
            o += c;
        }
        else if ((unsigned char)c < 0x20)
            o += ' ';
        else
            o += c;
    }
    return o + "\"";
}
inline std::string hex32(float v)
{
    uint32_t u;
    memcpy(&u, &v, 4);
    char b[16];
    snprintf(b, sizeof b, "0x%08x", u);
    return b;
}
inline std::string hex64(double v)
{
    uint64_t u;
    memcpy(&u, &v, 8);
    char b[24];
    snprintf(b, sizeof b, "0x%016llx", (unsigned long long)u);
    return b;
}
template <class T>
std::string hexT(T v);
template <>
inline std::string hexT<float>(float v) { return hex32(v); }
template <>
inline std::string hexT<double>(double v) { return hex64(v); }
inline std::string fmt(const char* f, ...)
{
    char b[512];
    va_list ap;
    va_start(ap, f);
    vsnprintf(b, sizeof b, f, ap);
    va_end(ap);
    return b;
}

struct Rng
{
    uint64_t s;
    explicit Rng(uint64_t x)
        : s(x)
    {
    }
    uint64_t next()
    {
        uint64_t z = (s += 0x9e3779b97f4a7c15ull);
        z = (z ^ (z >> 30)) * 0xbf58476d1ce4e5b9ull;
        z = (z ^ (z >> 27)) * 0x94d049bb133111ebull;
        return z ^ (z >> 31);
    }
    double unit() { return (double)(next() >> 11) * (1.0 / 9007199254740992.0); }
    uint64_t below(uint64_t n) { return n ? next() % n : 0; }
};
inline uint64_t mix(uint64_t a, uint64_t b)
{
    Rng r(a ^ (b * 0x9e3779b97f4a7c15ull + 0x7f4a7c15ull));
    r.next();
    return r.next();
}

// ---------------------------------------------------------------- per (prop, fn, type, arch) statistics
struct Stat
{
    std::string prop, op, type, arch; // identity, set by Stats::at
    std::map<std::string, long> vc; // violations per input class
    long evals = 0, viol = 0;
    std::vector<uint64_t> cells;
    double maxerr = 0; // ulp (value monitors)
    std::string argmax;
    long bitdiff = 0; // C13: lanes whose in-batch and broadcast results differ in the last bits (allowed, counted)
    std::vector<std::string> samples;
    void cell(unsigned idx)
    {
        idx &= (1u << 16) - 1;
        size_t w = idx >> 6;
        if (w >= cells.size())
            cells.resize(w + 1, 0);
        cells[w] |= 1ull << (idx & 63);
    }
    long ncells() const
    {
        long n = 0;
        for (uint64_t w : cells)
            n += __builtin_popcountll(w);
        return n;
    }
    void merge(const Stat& o)
    {
        evals += o.evals;
        viol += o.viol;
        bitdiff += o.bitdiff;
        for (auto& kv : o.vc)
            vc[kv.first] += kv.second;
        if (o.cells.size() > cells.size())
            cells.resize(o.cells.size(), 0);
        for (size_t i = 0; i < o.cells.size(); ++i)
            cells[i] |= o.cells[i];
        if (o.maxerr > maxerr)
        {
            maxerr = o.maxerr;
            argmax = o.argmax;
        }
        for (auto& s : o.samples)
            if (samples.size() < 2)
                samples.push_back(s);
    }
};
struct StatKey
{
    std::string prop, op, type, arch;
    bool operator<(const StatKey& o) const
    {
        return std::tie(prop, op, type, arch) < std::tie(o.prop, o.op, o.type, o.arch);
    }
};
struct Stats
{
    std::map<StatKey, Stat> m;
    Stat& at(const std::string& prop, const std::string& op, const std::string& type, const std::string& arch)
    {
        Stat& s = m[{ prop, op, type, arch }];
        if (s.prop.empty())
        {
            s.prop = prop;
            s.op = op;
            s.type = type;
            s.arch = arch;
        }
        return s;
    }
    void merge(const Stats& o)
    {
        for (auto& kv : o.m)
            m[kv.first].merge(kv.second);
    }
};
// a violation: at most 3 witnesses per key are written out, all are counted
// a violation: counted per (statistic, input class); the first two witnesses per thread are written out.
// make_witness is only called when the witness is wanted, so the hot path is one map lookup.
template <class F>
inline void viol(Stat& st, const char* cls, F make_witness)
{
    st.viol++;
    long& n = st.vc[cls];
    if (n++ < 2)
        emit("{\"t\":\"viol\",\"prop\":" + jstr(st.prop) + ",\"op\":" + jstr(st.op) + ",\"type\":" + jstr(st.type) + ",\"cls\":" + jstr(cls) + ",\"arch\":" + jstr(st.arch) + ",\"w\":" + make_witness() + "}");
}
inline void viol(Stats& S, const std::string& prop, const std::string& op, const std::string& type, const std::string& arch, const std::string& cls, const std::string& witness)
{
    viol(S.at(prop, op, type, arch), cls.c_str(), [&] { return witness; });
}
inline bool selected(const std::string& op, const std::string& type)
{
    if (!g.only_op.empty() && g.only_op != op)
        return false;
    if (!g.only_type.empty() && g.only_type != type)
        return false;
    return true;
}
inline void flush_stats(const Stats& S)
{
    for (auto& kv : S.m)
    {
        const Stat& s = kv.second;
        if (!s.evals && !s.viol)
            continue;
        std::string smp = "[";
        for (size_t i = 0; i < s.samples.size(); ++i)
            smp += (i ? "," : "") + s.samples[i];
        smp += "]";
        emit("{\"t\":\"op\",\"prop\":" + jstr(kv.first.prop) + ",\"op\":" + jstr(kv.first.op) + ",\"type\":" + jstr(kv.first.type) + ",\"arch\":" + jstr(kv.first.arch) + ",\"evals\":" + std::to_string(s.evals) + ",\"cells\":" + std::to_string(s.ncells()) + ",\"viol\":" + std::to_string(s.viol) + ",\"samples\":" + smp + "}");
        if (s.maxerr > 0 || s.bitdiff)
            emit("{\"t\":\"info\",\"key\":" + jstr("max_ulp_" + kv.first.op + "_" + kv.first.type) + ",\"arch\":" + jstr(kv.first.arch) + ",\"v\":{\"max_ulp\":" + fmt("%.3f", s.maxerr) + ",\"at\":" + jstr(s.argmax) + ",\"bitwise_lane_differences\":" + std::to_string(s.bitdiff) + "}}");
    }
    for (auto& kv : S.m)
        for (auto& c : kv.second.vc)
            emit("{\"t\":\"violcount\",\"key\":" + jstr(kv.first.prop + "|" + kv.first.op + "|" + kv.first.type + "|" + c.first) + ",\"arch\":" + jstr(kv.first.arch) + ",\"n\":" + std::to_string(c.second) + "}");

}

// ---------------------------------------------------------------- parallel-for over work items, with a progress monitor
// Every worker publishes the item it is working on and its thread CPU clock; a monitor thread reports a worker that
// has burnt more than HANG_CPU_S seconds of CPU on ONE item (normally < 10 ms): a call that does not return.  CPU time,
// not wall time, so a loaded machine cannot trigger it.  Under C14 that is a violation (with the item as witness);
// under the other properties the run is inconclusive.
#include <pthread.h>
static const double HANG_CPU_S = 30.0;
inline double cpu_of(clockid_t c)
{
    timespec ts;
    if (clock_gettime(c, &ts) != 0)
        return 0;
    return (double)ts.tv_sec + 1e-9 * (double)ts.tv_nsec;
}
template <class F>
void parallel_for(uint64_t n, F f, std::function<std::string(uint64_t)> describe = nullptr) // f(item index, thread-local Stats&)
{
    std::atomic<uint64_t> next(0);
    std::vector<Stats> local(g.nthreads);
    std::vector<std::thread> th;
    struct Slot
    {
        std::atomic<uint64_t> item { ~0ull };
        std::atomic<long long> start_us { 0 };
        clockid_t clock;
        std::atomic<int> live { 0 };
    };
    std::vector<Slot> slots(g.nthreads);
    std::atomic<int> done(0);
    for (unsigned t = 0; t < g.nthreads; ++t)
        th.emplace_back([&, t]
                        {
            pthread_getcpuclockid(pthread_self(), &slots[t].clock);
            slots[t].live = 1;
            for (;;)
            {
                uint64_t i = next.fetch_add(1);
                if (i >= n)
                    break;
                slots[t].start_us = (long long)(cpu_of(slots[t].clock) * 1e6);
                slots[t].item = i;
                f(i, local[t]);
            }
            slots[t].live = 0;
            done++; });
    std::thread monitor([&]
                        {
        while (done.load() < (int)g.nthreads)
        {
            usleep(200000);
            for (unsigned t = 0; t < g.nthreads; ++t)
            {
                if (!slots[t].live.load())
                    continue;
                double used = cpu_of(slots[t].clock) - (double)slots[t].start_us.load() * 1e-6;
                uint64_t it = slots[t].item.load();
                if (it != ~0ull && used > HANG_CPU_S)
                {
                    std::string d = describe ? describe(it) : ("item " + std::to_string(it));
                    if (g.prop == "C14")
                        emit("{\"t\":\"viol\",\"prop\":\"C14\",\"op\":\"call_does_not_return\",\"type\":\"?\",\"cls\":\"hang\",\"arch\":\"*\",\"w\":{\"item\":" + jstr(d) + ",\"cpu_seconds_on_one_block\":" + std::to_string(used) + "}}");
                    else
                        emit("{\"t\":\"inconclusive\",\"why\":" + jstr("a call did not return within " + std::to_string((int)HANG_CPU_S) + " CPU seconds: " + d) + "}");
                    emit("{\"t\":\"done\"}");
                    _exit(0);
                }
            }
        } });
    for (auto& x : th)
        x.join();
    monitor.join();
    extern Stats g_stats;
    for (auto& l : local)
        g_stats.merge(l);
}

// ---------------------------------------------------------------- floating helpers
template <class T>
struct FT;
template <>
struct FT<float>
{
    using U = uint32_t;
    static constexpr int P = 23;
    static const char* name() { return "f32"; }
    static constexpr float MINN = FLT_MIN, MAXN = FLT_MAX;
};
template <>
struct FT<double>
{
    using U = uint64_t;
    static constexpr int P = 52;
    static const char* name() { return "f64"; }
    static constexpr double MINN = DBL_MIN, MAXN = DBL_MAX;
};
template <class T>
typename FT<T>::U bitsof(T v)
{
    typename FT<T>::U u;
    memcpy(&u, &v, sizeof u);
    return u;
}
template <class T>
T frombits(typename FT<T>::U u)
{
    T v;
    memcpy(&v, &u, sizeof v);
    return v;
}
template <class T>
bool is_subnormal(T x) { return x != 0 && std::fabs(x) < FT<T>::MINN; }
// |got - ref| in ulps of ref in the format with P explicit mantissa bits
template <class R>
inline double ulp_err(R got, R ref, int P)
{
    if (ref == 0)
        return got == 0 ? 0.0 : 1e30;
    int e;
    (void)frexpl((ld)ref, &e); // |ref| = m * 2^e, m in [0.5,1)  => 2^(e-1) <= |ref|
    R d = got - ref;
    if (d < 0)
        d = -d;
    return (double)ldexpl((ld)d, -(e - 1 - P));
}
