// Per-architecture shared object: evaluates the xsimd elementary functions of one architecture on
// arrays (consecutive elements share a batch).  Built with only that architecture's -m flags and
// hidden visibility, so nothing is shared with the other architectures' objects (DESIGN.md 2.1).
#include <xsimd/xsimd.hpp>
#include "mathfn.hpp"
namespace xs = xsimd;
using A = VARCH;
#define EXPORT extern "C" __attribute__((visibility("default")))

template <class T>
struct K
{
    using B = xs::batch<T, A>;
    static constexpr size_t N = B::size;
    template <class F>
    static void u(F f, const T* in, T* out, size_t n)
    {
        for (size_t i = 0; i + N <= n; i += N)
            f(B::load_unaligned(in + i)).store_unaligned(out + i);
    }
    template <class F>
    static void b(F f, const T* in0, const T* in1, T* out, size_t n)
    {
        for (size_t i = 0; i + N <= n; i += N)
            f(B::load_unaligned(in0 + i), B::load_unaligned(in1 + i)).store_unaligned(out + i);
    }
    static int eval(int fn, const T* in0, const T* in1, T* out0, T* out1, size_t n)
    {
        if (n % N)
            return -2;
        switch (fn)
        {
#define U(ID, EXPR) case ID: u([](B x) { return EXPR; }, in0, out0, n); break;
            U(FN_SQRT, xs::sqrt(x))
            U(FN_EXP, xs::exp(x))
            U(FN_EXP2, xs::exp2(x))
            U(FN_EXP10, xs::exp10(x))
            U(FN_EXPM1, xs::expm1(x))
            U(FN_LOG, xs::log(x))
            U(FN_LOG2, xs::log2(x))
            U(FN_LOG10, xs::log10(x))
            U(FN_LOG1P, xs::log1p(x))
            U(FN_SIN, xs::sin(x))
            U(FN_COS, xs::cos(x))
            U(FN_TAN, xs::tan(x))
            U(FN_ASIN, xs::asin(x))
            U(FN_ACOS, xs::acos(x))
            U(FN_ATAN, xs::atan(x))
            U(FN_SINH, xs::sinh(x))
            U(FN_COSH, xs::cosh(x))
            U(FN_TANH, xs::tanh(x))
            U(FN_ASINH, xs::asinh(x))
            U(FN_ACOSH, xs::acosh(x))
            U(FN_ATANH, xs::atanh(x))
            U(FN_CBRT, xs::cbrt(x))
            U(FN_ERF, xs::erf(x))
            U(FN_ERFC, xs::erfc(x))
            U(FN_TGAMMA, xs::tgamma(x))
            U(FN_LGAMMA, xs::lgamma(x))
            U(FN_FABS, xs::fabs(x))
            U(FN_ABS, xs::abs(x))
            U(FN_RINT, xs::rint(x))
            U(FN_NEARBYINT, xs::nearbyint(x))
            U(FN_RECIPROCAL, xs::reciprocal(x))
            U(FN_RSQRT, xs::rsqrt(x))
            U(FN_ROUND, xs::round(x))
            U(FN_CEIL, xs::ceil(x))
            U(FN_FLOOR, xs::floor(x))
            U(FN_TRUNC, xs::trunc(x))
            U(FN_SIGN, xs::sign(x))
            U(FN_CLIP_UNIT, xs::clip(x, B(T(-1)), B(T(1))))
#undef U
        case FN_FREXP_MANT:
            for (size_t i = 0; i + N <= n; i += N)
            {
                xs::batch<xs::as_integer_t<T>, A> e;
                xs::frexp(B::load_unaligned(in0 + i), e).store_unaligned(out0 + i);
            }
            break;
        case FN_LDEXP_INT:
            for (size_t i = 0; i + N <= n; i += N)
            {
                // the exponent operand: the second input converted lane by lane (saturated to +-4096 so that the conversion is defined)
                alignas(64) xs::as_integer_t<T> e[N];
                for (size_t k = 0; k < N; ++k)
                {
                    T v = in1[i + k];
                    e[k] = (xs::as_integer_t<T>)(v != v ? 0 : v > 4096 ? 4096 : v < -4096 ? -4096 : v);
                }
                xs::ldexp(B::load_unaligned(in0 + i), xs::batch<xs::as_integer_t<T>, A>::load_aligned(e)).store_unaligned(out0 + i);
            }
            break;
        case FN_FMOD: b([](B x, B y) { return xs::fmod(x, y); }, in0, in1, out0, n); break;
        case FN_REMAINDER: b([](B x, B y) { return xs::remainder(x, y); }, in0, in1, out0, n); break;
        case FN_FDIM: b([](B x, B y) { return xs::fdim(x, y); }, in0, in1, out0, n); break;
        case FN_FMIN: b([](B x, B y) { return xs::fmin(x, y); }, in0, in1, out0, n); break;
        case FN_FMAX: b([](B x, B y) { return xs::fmax(x, y); }, in0, in1, out0, n); break;
        case FN_NEXTAFTER: b([](B x, B y) { return xs::nextafter(x, y); }, in0, in1, out0, n); break;
        case FN_COPYSIGN: b([](B x, B y) { return xs::copysign(x, y); }, in0, in1, out0, n); break;
        case FN_POLAR_RE: b([](B x, B y) { return xs::polar(x, y).real(); }, in0, in1, out0, n); break;
        case FN_SINCOS:
            for (size_t i = 0; i + N <= n; i += N)
            {
                auto r = xs::sincos(B::load_unaligned(in0 + i));
                r.first.store_unaligned(out0 + i);
                r.second.store_unaligned(out1 + i);
            }
            break;
        case FN_ATAN2: b([](B x, B y) { return xs::atan2(x, y); }, in0, in1, out0, n); break;
        case FN_HYPOT: b([](B x, B y) { return xs::hypot(x, y); }, in0, in1, out0, n); break;
        case FN_POW: b([](B x, B y) { return xs::pow(x, y); }, in0, in1, out0, n); break;
        case FN_IPOW:
            for (size_t i = 0; i + N <= n; i += N)
                xs::pow(B::load_unaligned(in0 + i), (int)in1[i]).store_unaligned(out0 + i);
            break;
        default: return -1;
        }
        return 0;
    }
};

EXPORT const char* vunit_arch() { return VARCH_NAME; }
EXPORT int vunit_lanes(int is_double) { return is_double ? (int)K<double>::N : (int)K<float>::N; }
EXPORT int vunit_eval32(int fn, const float* in0, const float* in1, float* out0, float* out1, size_t n) { return K<float>::eval(fn, in0, in1, out0, out1, n); }
EXPORT int vunit_eval64(int fn, const double* in0, const double* in1, double* out0, double* out1, size_t n) { return K<double>::eval(fn, in0, in1, out0, out1, n); }
#ifdef XSIMD_VERIF
EXPORT void vunit_loop_reset(unsigned long limit)
{
    auto& m = xs::verif::loop_monitor();
    m.count = 0;
    m.limit = limit;
    m.exceeded = 0;
}
EXPORT unsigned long vunit_loop_count() { return xs::verif::loop_monitor().count; }
EXPORT unsigned long vunit_loop_exceeded() { return xs::verif::loop_monitor().exceeded; }
#endif
