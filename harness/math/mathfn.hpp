// Function table shared by the per-architecture math shared objects and the runner.
#pragma once
#include <cstddef>
enum MathFn
{
    FN_SQRT, FN_EXP, FN_EXP2, FN_EXP10, FN_EXPM1, FN_LOG, FN_LOG2, FN_LOG10, FN_LOG1P,
    FN_SIN, FN_COS, FN_TAN, FN_ASIN, FN_ACOS, FN_ATAN, FN_SINH, FN_COSH, FN_TANH,
    FN_ASINH, FN_ACOSH, FN_ATANH, FN_CBRT, FN_ERF, FN_ERFC, FN_TGAMMA, FN_LGAMMA,
    FN_SINCOS, // 1 in, 2 out
    FN_ATAN2, FN_HYPOT, FN_POW, // 2 in
    FN_FABS, FN_ABS, FN_RINT, FN_NEARBYINT, // identities of C12
    FN_IPOW, // pow(batch, int): in1[first lane of the batch] holds the integer exponent (C14 only)
    // further public functions of real batches, monitored for termination / bounded time only (C14)
    FN_FMOD, FN_REMAINDER, FN_FDIM, FN_FMIN, FN_FMAX, FN_NEXTAFTER, FN_COPYSIGN, FN_LDEXP_INT, FN_FREXP_MANT,
    FN_RECIPROCAL, FN_RSQRT, FN_ROUND, FN_CEIL, FN_FLOOR, FN_TRUNC, FN_SIGN, FN_CLIP_UNIT, FN_POLAR_RE,
    FN_COUNT
};
struct MathFnInfo
{
    const char* name;
    int nin, nout;
};
static const MathFnInfo MATHFN[FN_COUNT] = {
    { "sqrt", 1, 1 }, { "exp", 1, 1 }, { "exp2", 1, 1 }, { "exp10", 1, 1 }, { "expm1", 1, 1 }, { "log", 1, 1 }, { "log2", 1, 1 }, { "log10", 1, 1 }, { "log1p", 1, 1 },
    { "sin", 1, 1 }, { "cos", 1, 1 }, { "tan", 1, 1 }, { "asin", 1, 1 }, { "acos", 1, 1 }, { "atan", 1, 1 }, { "sinh", 1, 1 }, { "cosh", 1, 1 }, { "tanh", 1, 1 },
    { "asinh", 1, 1 }, { "acosh", 1, 1 }, { "atanh", 1, 1 }, { "cbrt", 1, 1 }, { "erf", 1, 1 }, { "erfc", 1, 1 }, { "tgamma", 1, 1 }, { "lgamma", 1, 1 },
    { "sincos", 1, 2 }, { "atan2", 2, 1 }, { "hypot", 2, 1 }, { "pow", 2, 1 }, { "fabs", 1, 1 }, { "abs", 1, 1 }, { "rint", 1, 1 }, { "nearbyint", 1, 1 }, { "pow_int_exponent", 2, 1 },
    { "fmod", 2, 1 }, { "remainder", 2, 1 }, { "fdim", 2, 1 }, { "fmin", 2, 1 }, { "fmax", 2, 1 }, { "nextafter", 2, 1 }, { "copysign", 2, 1 }, { "ldexp_int", 2, 1 }, { "frexp_mantissa", 1, 1 },
    { "reciprocal", 1, 1 }, { "rsqrt", 1, 1 }, { "round", 1, 1 }, { "ceil", 1, 1 }, { "floor", 1, 1 }, { "trunc", 1, 1 }, { "sign", 1, 1 }, { "clip", 1, 1 }, { "polar_real_part", 2, 1 },
};
// C ABI exported by every lib<arch>.so
extern "C"
{
    typedef const char* (*vunit_arch_t)();
    typedef int (*vunit_lanes_t)(int is_double);
    typedef int (*vunit_eval32_t)(int fn, const float* in0, const float* in1, float* out0, float* out1, size_t n);
    typedef int (*vunit_eval64_t)(int fn, const double* in0, const double* in1, double* out0, double* out1, size_t n);
    typedef void (*vunit_loop_reset_t)(unsigned long limit);
    typedef unsigned long (*vunit_loop_count_t)();
    typedef unsigned long (*vunit_loop_exceeded_t)();
}
