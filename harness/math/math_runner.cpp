#include "refs.hpp"
#include <algorithm>

Ctx g;
Stats g_stats;

static const char* CLASS_ARCHES[] = { "sse2", "fma3_avx2", "avx512f", "emu128" }; // the four codegen classes (DESIGN.md C10)
static bool is_class_arch(const std::string& a)
{
    for (const char* c : CLASS_ARCHES)
        if (a == c)
            return true;
    return false;
}

static long budget(long quick, long thorough)
{
    double v = (g.tier ? (double)thorough : (double)quick) * g.scale;
    return v < 1 ? 1 : (long)v;
}

// ============================================================================ the value oracle (C10 / C11 / C13)
template <class T>
struct Val
{
    using R = typename std::conditional<sizeof(T) == 4, double, ld>::type;
    static constexpr int P = FT<T>::P;
    static R ref(int fn, T x, T y)
    {
        if (sizeof(T) == 4)
            return (R)ref_d(fn, (double)x, (double)y);
        return (R)ref_l(fn, (ld)x, (ld)y);
    }
    // is (fn, x, y) inside the argument domain the accuracy properties talk about?
    static bool arg_ok(int fn, T x, T y)
    {
        if (!(x == x) || std::isinf(x) || is_subnormal(x))
            return false;
        if (MATHFN[fn].nin == 2)
        {
            if (!(y == y) || std::isinf(y) || is_subnormal(y))
                return false;
            if (fn == FN_ATAN2 && x == 0 && y == 0)
                return false;
            if (fn == FN_POW && x == 0 && y <= 0)
                return false; // 0^negative is a pole and 0^0 has no exact mathematical value: nothing is claimed there
                              // (C12 likewise states pow(x,0) = 1 for non-zero x only)
            if (fn == FN_HYPOT)
            {
                ld xx = (ld)x * x, yy = (ld)y * y, lo = 4 * (ld)FT<T>::MINN, hi = (ld)FT<T>::MAXN / 4;
                if ((x != 0 && (xx < lo || xx > hi)) || (y != 0 && (yy < lo || yy > hi)))
                    return false;
            }
        }
        return true;
    }
    // returns nullptr when the evaluation is fine, else a short reason; err receives the ulp error when in range
    static const char* judge(int fn, T x, T y, T got, R r0, double& err, double& bnd)
    {
        err = 0;
        bnd = 0;
        if (r0 != r0)
            return nullptr; // domain error: C12's business
        const ld a = fabsl((ld)r0), lo = 4 * (ld)FT<T>::MINN, hi = (ld)FT<T>::MAXN / 4;
        if (a > hi)
        { // overflow side: graceful saturation
            if (got != got)
                return "nan_on_overflow_side";
            if (std::signbit(got) != std::signbit((double)r0))
                return "wrong_sign_on_overflow_side";
            if (!std::isinf(got) && std::fabs((ld)got) < (ld)FT<T>::MAXN / 16)
                return "garbage_on_overflow_side";
            return nullptr;
        }
        if (a < lo && fn != FN_LGAMMA)
        { // underflow side
            if (got != got)
                return "nan_on_underflow_side";
            if (std::fabs((ld)got) > 16 * (ld)FT<T>::MINN)
                return "garbage_on_underflow_side";
            if (got != 0 && r0 != 0 && std::signbit(got) != std::signbit((double)r0))
                return "wrong_sign_on_underflow_side";
            return nullptr;
        }
        if (got != got)
            return "nan_in_domain";
        if (std::isinf(got))
            return "inf_in_domain";
        bnd = bound_for<T>(fn, x, y, (ld)r0);
        ld rs = scale_ref(fn, (ld)r0);
        // error measured in ulps of rs
        int e;
        (void)frexpl(rs, &e);
        ld d = fabsl((ld)got - (ld)r0);
        err = (double)ldexpl(d, -(e - 1 - P));
        if (sizeof(T) == 8 && err > 0.75 * bnd)
        { // re-check against __float128 before reporting (reference hygiene, DESIGN.md section 4)
            f128 q = ref_q(fn, (f128)x, (f128)y);
            f128 dq = fabsq((f128)got - q);
            err = (double)ldexpq(dq, -(e - 1 - P));
        }
        double tol = (fn == FN_SQRT) ? 0.5000001 : bnd;
        if (!(err <= tol))
            return "ulp_bound_exceeded";
        return nullptr;
    }
};

template <class T>
static std::string wit(int fn, T x, T y, T got, typename Val<T>::R r, double err, double bnd, const char* why, int layout)
{
    std::string s = "{\"x\":\"" + hexT(x) + "\"";
    if (MATHFN[fn].nin == 2)
        s += ",\"y\":\"" + hexT(y) + "\"";
    s += fmt(",\"x_value\":%.17g", (double)x);
    if (MATHFN[fn].nin == 2)
        s += fmt(",\"y_value\":%.17g", (double)y);
    s += ",\"got\":\"" + hexT(got) + "\"" + fmt(",\"got_value\":%.17g,\"reference\":%.21Lg,\"ulp_error\":%.3f,\"bound\":%.3f,\"why\":\"%s\",\"layout\":%d}", (double)got, (ld)r, err, bnd, why, layout);
    return s;
}

template <class T>
static int eval_lib(const Lib& L, int fn, const T* in0, const T* in1, T* out0, T* out1, size_t n);
template <>
int eval_lib<float>(const Lib& L, int fn, const float* in0, const float* in1, float* out0, float* out1, size_t n) { return L.eval32(fn, in0, in1, out0, out1, n); }
template <>
int eval_lib<double>(const Lib& L, int fn, const double* in0, const double* in1, double* out0, double* out1, size_t n) { return L.eval64(fn, in0, in1, out0, out1, n); }

// one block of arguments through every selected architecture, judged against the shared reference
template <class T>
static void value_block(Stats& S, const char* prop, int fn, const T* x, const T* y, size_t n, int layout, const std::function<bool(const Lib&)>& use_lib)
{
    using V = Val<T>;
    std::vector<typename V::R> ref0(n), ref1(n);
    std::vector<char> ok(n);
    const int base_fn = fn == FN_SINCOS ? FN_SIN : fn;
    for (size_t i = 0; i < n; ++i)
    {
        T yy = y ? y[i] : (T)0;
        ok[i] = V::arg_ok(base_fn, x[i], yy);
        if (ok[i])
        {
            ref0[i] = V::ref(base_fn, x[i], yy);
            if (fn == FN_SINCOS)
                ref1[i] = V::ref(FN_COS, x[i], yy);
        }
    }
    std::vector<T> o0(n), o1(n);
    for (const Lib& L : g.libs)
    {
        if (!use_lib(L))
            continue;
        eval_lib<T>(L, fn, x, y, o0.data(), o1.data(), n);
        for (int outi = 0; outi < MATHFN[fn].nout; ++outi)
        {
            const int jfn = fn == FN_SINCOS ? (outi ? FN_COS : FN_SIN) : fn;
            const std::string opname = fn == FN_SINCOS ? (outi ? "sincos.second" : "sincos.first") : MATHFN[fn].name;
            Stat& st = S.at(prop, opname, FT<T>::name(), L.arch);
            const T* o = outi ? o1.data() : o0.data();
            const typename V::R* r = outi ? ref1.data() : ref0.data();
            for (size_t i = 0; i < n; ++i)
            {
                if (!ok[i])
                    continue;
                double err, bnd;
                T yy = y ? y[i] : (T)0;
                const char* why = V::judge(jfn, x[i], yy, o[i], r[i], err, bnd);
                st.evals++;
                {
                    int e;
                    (void)std::frexp((double)x[i], &e);
                    st.cell((unsigned)(layout << 13 | (x[i] < 0) << 12 | ((e + 2048) & 0xfff)));
                }
                if (err > st.maxerr && !why)
                {
                    st.maxerr = err;
                    st.argmax = hexT(x[i]) + (y ? "," + hexT(yy) : "");
                }
                if (why)
                    viol(st, classify<T>(jfn, x[i], yy, err), [&] { return wit<T>(jfn, x[i], yy, o[i], r[i], err, bnd, why, layout); });
                else if (st.samples.size() < 2 && (i % 977) == 13)
                    st.samples.push_back(wit<T>(jfn, x[i], yy, o[i], r[i], err, bnd, "ok", layout));
            }
        }
    }
}

// ============================================================================ argument generators
// float32 bit patterns: block b of 4096 patterns, layout 0 = consecutive, layout 1 = scrambled by an odd multiplier
static void f32_pattern_block(uint64_t b, int layout, float* x)
{
    for (uint32_t k = 0; k < 4096; ++k)
    {
        uint32_t idx = (uint32_t)(b * 4096 + k);
        uint32_t u = layout ? idx * 0x9E3779B1u : idx; // odd multiplier: a bijection of the 2^32 patterns
        memcpy(&x[k], &u, 4);
    }
}
// generated doubles / floats for one function: several streams mixed inside one block so that lanes of a batch
// differ wildly (stream chosen per element), or kept apart (companion = neighbours)
template <class T>
static T gen_arg(Rng& r, int fn, int stream)
{
    using U = typename FT<T>::U;
    const int mant = FT<T>::P;
    switch (stream)
    {
    case 0: // log-uniform over the whole finite range, both signs
    {
        U u = (U)r.next();
        T v = frombits<T>(u);
        if (!(v == v) || std::isinf(v))
            v = (T)1.5;
        return v;
    }
    case 1: // uniform on [-50, 50]
        return (T)((r.unit() - 0.5) * 100.0);
    case 2: // uniform on [-2, 2]
        return (T)((r.unit() - 0.5) * 4.0);
    case 3: // every binade boundary +- 8 ulp
    {
        int e = (int)(r.next() % (sizeof(T) == 4 ? 254 : 2046)) + 1;
        U u = ((U)e << mant);
        u = (U)(u + (U)(r.next() % 17) - 8);
        if (r.next() & 1)
            u |= (U)1 << (sizeof(T) * 8 - 1);
        return frombits<T>(u);
    }
    case 4: // algorithm switch points +- 64 ulp
    {
        const size_t ns = sizeof(SWITCH_POINTS) / sizeof(SWITCH_POINTS[0]);
        T s = (T)SWITCH_POINTS[r.next() % ns];
        U u = bitsof(s);
        u = (U)(u + (U)(r.next() % 129) - 64);
        T v = frombits<T>(u);
        if (r.next() & 1)
            v = -v;
        return v;
    }
    case 5: // k*pi/2 +- 0..4 ulp, |k| up to 2^mant and a sample beyond
    {
        uint64_t sel = r.next();
        ld k;
        if ((sel & 3) == 0)
            k = (ld)(r.next() % 64);
        else if ((sel & 3) == 1)
            k = (ld)(r.next() % (1ull << 20));
        else if ((sel & 3) == 2)
            k = ldexpl((ld)(r.next() >> 11), -(int)(r.next() % 53)) * 4.0L; // up to 2^55
        else
            k = ldexpl((ld)(1 + r.next() % 1024), (int)(r.next() % (sizeof(T) == 4 ? 100 : 900)));
        T v = (T)(floorl(k) * 1.57079632679489661923132169163975144L);
        U u = bitsof(v);
        u = (U)(u + (U)(r.next() % 9) - 4);
        v = frombits<T>(u);
        if (r.next() & 1)
            v = -v;
        if (!(v == v) || std::isinf(v))
            v = (T)3;
        return v;
    }
    case 6: // float32 values widened / moderate values with few mantissa bits (exact-result near-ties)
    {
        float f = frombits<float>((uint32_t)r.next());
        if (!(f == f) || std::isinf(f))
            f = 0.75f;
        return (T)f;
    }
    case 7: // domain of inverse functions: [-1.2, 1.2] dense near +-1, and [1, 3] for acosh
    {
        double u = r.unit();
        double v = (r.next() & 1) ? 1.0 - std::pow(u, 6.0) * 1.2 : u * 1.2;
        if (fn == FN_ACOSH)
            v = 1.0 + std::pow(u, 4.0) * 3.0;
        if (r.next() & 1)
            v = -v;
        return (T)v;
    }
    default: // gamma / erf interesting region: [-40, 180]
        return (T)(r.unit() * 220.0 - 40.0);
    }
}
template <class T>
static void gen_block(uint64_t seed, int fn, uint64_t item, int layout, T* x, T* y, size_t n)
{
    Rng r(mix(seed ^ (uint64_t)fn * 1315423911ull, item * 2 + (uint64_t)layout));
    int stream = (int)(item % 9);
    for (size_t i = 0; i < n; ++i)
    {
        int s = layout ? (int)(r.next() % 9) : stream; // layout 1: every element from its own stream (mixed magnitudes)
        x[i] = gen_arg<T>(r, fn, s);
        if (y)
        {
            int s2 = layout ? (int)(r.next() % 9) : (int)((item / 9) % 9);
            y[i] = gen_arg<T>(r, fn, s2);
            if (fn == FN_POW)
            { // structured exponents and bases
                uint64_t k = r.next();
                switch (k % 8)
                {
                case 0: y[i] = (T)((int)(k >> 8) % 41 - 20); break; // small integers
                case 1: y[i] = (T)((int)(k >> 8) % 41 - 20) + (T)0.5; break; // half integers
                case 2: x[i] = (T)1 + (T)((r.unit() - 0.5) * 1e-3); break; // base near 1
                case 3: x[i] = -std::fabs(x[i]); y[i] = (T)((int64_t)(k >> 8) % 2001 - 1000); break; // negative base, integer exponent
                case 4: x[i] = -std::fabs(x[i]); y[i] = std::ldexp((T)(1 + (k >> 8) % 7), (int)((k >> 20) % 70)); break; // huge (even) integer exponent
                case 5: x[i] = (T)std::fabs((double)gen_arg<T>(r, fn, 1)); y[i] = (T)((r.unit() - 0.5) * 16); break;
                case 6: // huge ODD integer exponents (2^j - 1, the largest odd values of the format), negative and near-one bases
                    y[i] = (T)(std::ldexp(1.0, 1 + (int)((k >> 8) % (FT<T>::P + 1))) - 1.0);
                    if ((k >> 20) & 1)
                        y[i] = -y[i];
                    x[i] = ((k >> 21) & 1) ? -(T)(1.0 + (r.unit() - 0.5) * 1e-4) : -std::fabs(x[i]);
                    break;
                default: break;
                }
            }
        }
    }
}

// ============================================================================ C10 / C11 plans
static std::function<bool(const Lib&)> all_libs = [](const Lib&) { return true; };

static void plan_f32_sweeps(const char* prop)
{
    // unary functions + sincos over float32 bit patterns
    std::vector<int> fns;
    for (int fn = 0; fn <= FN_SINCOS; ++fn)
        if (selected(MATHFN[fn].name, "f32"))
            fns.push_back(fn);
    const uint64_t nblk = (1ull << 32) / 4096;
    // thorough: every block on the four class arches, every 8th on all; quick: every 128th on all (offset from the seed)
    const uint64_t stride_all = g.tier ? 8 : 128, stride_class = g.tier ? 1 : 128;
    const uint64_t off_all = g.seed % stride_all;
    const uint64_t offc = stride_class == 1 ? 0 : off_all % stride_class;
    const uint64_t nsel = (nblk - offc + stride_class - 1) / stride_class;
    const uint64_t total = (uint64_t)fns.size() * 2 * nsel;
    parallel_for(total, [&](uint64_t i, Stats& S)
                 {
        const int fn = fns[i / (2 * nsel)];
        const int layout = (int)((i / nsel) & 1);
        const uint64_t blk = (i % nsel) * stride_class + offc;
        float x[4096];
        f32_pattern_block(blk, layout, x);
        bool all = (blk % stride_all) == off_all;
        value_block<float>(S, prop, fn, x, nullptr, 4096, layout, [&](const Lib& L) { return all || is_class_arch(L.arch); }); });
    emit(fmt("{\"t\":\"info\",\"key\":\"f32_pattern_blocks\",\"v\":{\"blocks_per_function_layout\":%llu,\"stride_all_arches\":%llu,\"stride_class_arches\":%llu}}", (unsigned long long)nsel, (unsigned long long)stride_all, (unsigned long long)stride_class));
    // dense windows (+-2^12 patterns) around every switch point, both signs, both layouts, every arch
    {
        struct W
        {
            int fn, layout;
            uint32_t centre;
        };
        std::vector<W> ws;
        for (int fn : fns)
            for (double s : SWITCH_POINTS)
                for (int sg = 0; sg < 2; ++sg)
                    for (int layout = 0; layout < 2; ++layout)
                    {
                        float f = (float)s;
                        if (!(f == f) || std::isinf(f))
                            continue;
                        ws.push_back({ fn, layout, bitsof(f) | (sg ? 0x80000000u : 0u) });
                    }
        parallel_for(ws.size(), [&](uint64_t i, Stats& S)
                     {
            float x[8192];
            Rng r(mix(g.seed, i));
            for (uint32_t k = 0; k < 8192; ++k)
            {
                uint32_t u = ws[i].centre - 4096 + k;
                if (ws[i].layout && (k & 1)) // odd lanes: companions of very different magnitude
                    u = (uint32_t)r.next();
                x[k] = frombits<float>(u);
            }
            value_block<float>(S, prop, ws[i].fn, x, nullptr, 8192, ws[i].layout, all_libs); });
    }
}

template <class T>
static void plan_generated(const char* prop, const std::vector<int>& fns, long blocks_per_fn)
{
    struct Item
    {
        int fn, layout;
        uint64_t idx;
    };
    std::vector<Item> items;
    for (int fn : fns)
        if (selected(MATHFN[fn].name, FT<T>::name()))
            for (long b = 0; b < blocks_per_fn; ++b)
                items.push_back({ fn, (int)(b & 1), (uint64_t)b });
    parallel_for(items.size(), [&](uint64_t i, Stats& S)
                 {
        const Item& it = items[i];
        T x[4096], y[4096];
        bool bin = MATHFN[it.fn].nin == 2;
        gen_block<T>(g.seed, it.fn, it.idx, it.layout, x, bin ? y : nullptr, 4096);
        value_block<T>(S, prop, it.fn, x, bin ? y : nullptr, 4096, it.layout, all_libs); });
}

// fixed probe arguments: one block per open known finding, so that every listed finding is observed (and printed as
// KNOWN-FINDING) in every run whatever the seed, and a finding that disappears is noticed
template <class T>
static void plan_probes(const char* prop, const std::vector<std::pair<int, double>>& probes)
{
    parallel_for(probes.size(), [&](uint64_t i, Stats& S)
                 {
        if (!selected(MATHFN[probes[i].first].name, FT<T>::name()))
            return;
        T x[64];
        for (int k = 0; k < 64; ++k)
            x[k] = (T)probes[i].second;
        value_block<T>(S, prop, probes[i].first, x, nullptr, 64, 0, all_libs); });
}

// binary functions on the full cross product of a special-value lattice (finite values only; NaN / inf are C12's):
// every sign / zero / magnitude combination, e.g. the quadrants and axes of atan2, pow with odd/even/huge integer and
// half-integer exponents and negative bases, hypot of very different magnitudes
template <class T>
static void plan_lattice_pairs(const char* prop)
{
    const int mant = FT<T>::P + 1;
    std::vector<T> lat = { (T)0.0, (T)-0.0, (T)1, (T)-1, (T)0.5, (T)-0.5, (T)2, (T)-2, (T)3, (T)-3, (T)1.5, (T)-2.5, (T)1e-3, (T)-1e-3, (T)1e3, (T)-1e3,
                           FT<T>::MINN, -FT<T>::MINN, FT<T>::MINN * 8, FT<T>::MAXN / 8, -FT<T>::MAXN / 8, (T)0.99999, (T)1.00001, (T)-0.99999,
                           (T)(std::ldexp(1.0, mant) - 1), (T)-(std::ldexp(1.0, mant) - 1), (T)std::ldexp(1.0, mant), (T)std::ldexp(1.0, mant + 3), (T)-std::ldexp(1.0, mant + 1),
                           (T)(std::ldexp(1.0, mant - 1) - 0.5), (T)7, (T)-7, (T)1e-20, (T)-1e20, (T)127, (T)128, (T)-126, (T)1023, (T)-1022 };
    const size_t n = lat.size();
    std::vector<T> xs, ys;
    for (size_t i = 0; i < n; ++i)
        for (size_t j = 0; j < n; ++j)
        {
            xs.push_back(lat[i]);
            ys.push_back(lat[j]);
        }
    while (xs.size() % 64)
    {
        xs.push_back((T)1);
        ys.push_back((T)1);
    }
    const int fns[3] = { FN_ATAN2, FN_HYPOT, FN_POW };
    parallel_for(3, [&](uint64_t i, Stats& S)
                 {
        if (selected(MATHFN[fns[i]].name, FT<T>::name()))
            value_block<T>(S, prop, fns[i], xs.data(), ys.data(), xs.size(), 2, all_libs); });
}

static void run_C10()
{
    plan_lattice_pairs<float>("C10");
    plan_probes<float>("C10", { { FN_LGAMMA, -1e-30 }, { FN_LGAMMA, -7.999946117401123 }, { FN_LGAMMA, -8.9999885559082031 }, { FN_TGAMMA, -35.99998092651367 } });
    plan_f32_sweeps("C10");
    plan_generated<float>("C10", { FN_ATAN2, FN_HYPOT, FN_POW }, budget(64, 8192)); // 2.6e5 / 3.4e7 pairs per function per arch
}
static void run_C11()
{
    plan_lattice_pairs<double>("C11");
    plan_probes<double>("C11", { { FN_COS, 45.553093477052002 }, { FN_SIN, 9.42477796076938 }, { FN_TAN, -43.982297150257104 }, { FN_SINCOS, 23.56194490192345 },
                                 { FN_SINCOS, -9.42477796076938 }, { FN_TGAMMA, -171.99999999999957 }, { FN_TGAMMA, -139.08883666992188 } });
    std::vector<int> fns;
    for (int fn = 0; fn <= FN_POW; ++fn)
        fns.push_back(fn);
    plan_generated<double>("C11", fns, budget(1024, 16384)); // 4.2e6 (quick) / 6.7e7 (thorough) arguments per function per arch
}

// ============================================================================ C12: specials, symmetries, identities
struct Special
{
    int fn;
    double x, y;
    const char* expect; // "nan", "+inf", "-inf", "+0", "zero", "one", "v:<value>" exact value, "pm:<value>" within 1ulp-of-type of value
    double v;
};
static const double INF = INFINITY, QN = NAN, PI_2 = 1.5707963267948966;
static const Special SPECIALS[] = {
    // NaN in -> NaN out
    { FN_SQRT, QN, 0, "nan", 0 }, { FN_EXP, QN, 0, "nan", 0 }, { FN_EXP2, QN, 0, "nan", 0 }, { FN_EXP10, QN, 0, "nan", 0 }, { FN_EXPM1, QN, 0, "nan", 0 },
    { FN_LOG, QN, 0, "nan", 0 }, { FN_LOG2, QN, 0, "nan", 0 }, { FN_LOG10, QN, 0, "nan", 0 }, { FN_LOG1P, QN, 0, "nan", 0 }, { FN_SIN, QN, 0, "nan", 0 },
    { FN_COS, QN, 0, "nan", 0 }, { FN_TAN, QN, 0, "nan", 0 }, { FN_ASIN, QN, 0, "nan", 0 }, { FN_ACOS, QN, 0, "nan", 0 }, { FN_ATAN, QN, 0, "nan", 0 },
    { FN_SINH, QN, 0, "nan", 0 }, { FN_COSH, QN, 0, "nan", 0 }, { FN_TANH, QN, 0, "nan", 0 }, { FN_ASINH, QN, 0, "nan", 0 }, { FN_ACOSH, QN, 0, "nan", 0 },
    { FN_ATANH, QN, 0, "nan", 0 }, { FN_CBRT, QN, 0, "nan", 0 }, { FN_ERF, QN, 0, "nan", 0 }, { FN_ERFC, QN, 0, "nan", 0 }, { FN_TGAMMA, QN, 0, "nan", 0 },
    { FN_LGAMMA, QN, 0, "nan", 0 }, { FN_ATAN2, QN, 1, "nan", 0 }, { FN_ATAN2, 1, QN, "nan", 0 }, { FN_HYPOT, QN, 1, "nan", 0 }, { FN_POW, QN, 2, "nan", 0 }, { FN_POW, 2, QN, "nan", 0 },
    // domain errors -> NaN
    { FN_LOG, -1, 0, "nan", 0 }, { FN_LOG, -1e-30, 0, "nan", 0 }, { FN_LOG, -INF, 0, "nan", 0 }, { FN_LOG2, -2, 0, "nan", 0 }, { FN_LOG10, -10, 0, "nan", 0 },
    { FN_LOG1P, -1.5, 0, "nan", 0 }, { FN_LOG1P, -2, 0, "nan", 0 }, { FN_SQRT, -1, 0, "nan", 0 }, { FN_SQRT, -1e-30, 0, "nan", 0 }, { FN_SQRT, -INF, 0, "nan", 0 },
    { FN_ASIN, 1.5, 0, "nan", 0 }, { FN_ASIN, -1.0000002, 0, "nan", 0 }, { FN_ASIN, 1e30, 0, "nan", 0 }, { FN_ACOS, 1.5, 0, "nan", 0 }, { FN_ACOS, -2, 0, "nan", 0 },
    { FN_ACOSH, 0.5, 0, "nan", 0 }, { FN_ACOSH, -3, 0, "nan", 0 }, { FN_ACOSH, 0.9999999, 0, "nan", 0 }, { FN_ATANH, 1.5, 0, "nan", 0 }, { FN_ATANH, -1.0000002, 0, "nan", 0 },
    { FN_POW, -2, 0.5, "nan", 0 }, { FN_POW, -8, 1.0 / 3, "nan", 0 }, { FN_POW, -1.5, 2.5, "nan", 0 },
    // poles and limits
    { FN_LOG, 0.0, 0, "-inf", 0 }, { FN_LOG, -0.0, 0, "-inf", 0 }, { FN_LOG2, 0.0, 0, "-inf", 0 }, { FN_LOG10, 0.0, 0, "-inf", 0 }, { FN_LOG1P, -1, 0, "-inf", 0 },
    { FN_LOG, INF, 0, "+inf", 0 }, { FN_LOG2, INF, 0, "+inf", 0 }, { FN_LOG10, INF, 0, "+inf", 0 }, { FN_LOG1P, INF, 0, "+inf", 0 },
    { FN_EXP, -INF, 0, "+0", 0 }, { FN_EXP, INF, 0, "+inf", 0 }, { FN_EXP2, -INF, 0, "+0", 0 }, { FN_EXP2, INF, 0, "+inf", 0 }, { FN_EXP10, -INF, 0, "+0", 0 }, { FN_EXP10, INF, 0, "+inf", 0 },
    { FN_EXPM1, -INF, 0, "v", -1 }, { FN_EXPM1, INF, 0, "+inf", 0 }, { FN_SQRT, INF, 0, "+inf", 0 },
    { FN_ATAN, INF, 0, "pm", PI_2 }, { FN_ATAN, -INF, 0, "pm", -PI_2 }, { FN_TANH, INF, 0, "v", 1 }, { FN_TANH, -INF, 0, "v", -1 },
    { FN_ERF, INF, 0, "v", 1 }, { FN_ERF, -INF, 0, "v", -1 }, { FN_ERFC, INF, 0, "+0", 0 }, { FN_ERFC, -INF, 0, "v", 2 },
    { FN_TGAMMA, 0.0, 0, "+inf", 0 }, { FN_TGAMMA, -0.0, 0, "-inf", 0 }, { FN_TGAMMA, -1, 0, "nan", 0 }, { FN_TGAMMA, -2, 0, "nan", 0 }, { FN_TGAMMA, -7, 0, "nan", 0 }, { FN_TGAMMA, -40, 0, "nan", 0 },
    { FN_TGAMMA, INF, 0, "+inf", 0 }, { FN_LGAMMA, 0.0, 0, "+inf", 0 }, { FN_LGAMMA, -1, 0, "+inf", 0 }, { FN_LGAMMA, -2, 0, "+inf", 0 }, { FN_LGAMMA, -7, 0, "+inf", 0 }, { FN_LGAMMA, -40, 0, "+inf", 0 },
    { FN_LGAMMA, INF, 0, "+inf", 0 }, { FN_CBRT, INF, 0, "+inf", 0 }, { FN_CBRT, -INF, 0, "-inf", 0 }, { FN_SINH, INF, 0, "+inf", 0 }, { FN_SINH, -INF, 0, "-inf", 0 },
    { FN_COSH, INF, 0, "+inf", 0 }, { FN_COSH, -INF, 0, "+inf", 0 }, { FN_ASINH, INF, 0, "+inf", 0 }, { FN_ASINH, -INF, 0, "-inf", 0 }, { FN_ACOSH, INF, 0, "+inf", 0 },
    { FN_ATANH, 1, 0, "+inf", 0 }, { FN_ATANH, -1, 0, "-inf", 0 }, { FN_HYPOT, INF, 1, "+inf", 0 }, { FN_HYPOT, 1, -INF, "+inf", 0 },
    // exact identities the property lists
    { FN_EXP, 0.0, 0, "v", 1 }, { FN_EXP, -0.0, 0, "v", 1 }, { FN_LOG, 1, 0, "zero", 0 }, { FN_COS, 0.0, 0, "v", 1 }, { FN_COS, -0.0, 0, "v", 1 },
    { FN_POW, 2, 0.0, "v", 1 }, { FN_POW, -3.5, 0.0, "v", 1 }, { FN_POW, 1e30, -0.0, "v", 1 }, { FN_POW, -1e-30, 0.0, "v", 1 }, { FN_POW, 0.7, 0.0, "v", 1 },
};

template <class T>
static bool special_ok(const Special& s, T got)
{
    std::string e = s.expect;
    if (e == "nan")
        return got != got;
    if (e == "+inf")
        return std::isinf(got) && got > 0;
    if (e == "-inf")
        return std::isinf(got) && got < 0;
    if (e == "+0")
        return got == 0 && !std::signbit(got);
    if (e == "zero")
        return got == 0;
    if (e == "v")
        return got == (T)s.v;
    if (e == "pm")
    {
        T v = (T)s.v;
        return got == v || got == std::nextafter(v, (T)INFINITY) || got == std::nextafter(v, (T)-INFINITY);
    }
    return false;
}

template <class T>
static void plan_specials()
{
    const size_t ns = sizeof(SPECIALS) / sizeof(SPECIALS[0]);
    parallel_for(ns, [&](uint64_t si, Stats& S)
                 {
        const Special& s = SPECIALS[si];
        if (!selected(MATHFN[s.fn].name, FT<T>::name()))
            return;
        Rng r(mix(g.seed, si));
        for (const Lib& L : g.libs)
        {
            const size_t N = (size_t)L.lanes(sizeof(T) == 8);
            Stat& st = S.at("C12", std::string("special_") + MATHFN[s.fn].name, FT<T>::name(), L.arch);
            std::vector<T> x(N), y(N), o0(N), o1(N);
            // the special operand in every lane k, with ordinary / hostile companions in the others (3 companion sets)
            for (size_t k = 0; k < N; ++k)
                for (int comp = 0; comp < 3; ++comp)
                {
                    for (size_t i = 0; i < N; ++i)
                    {
                        x[i] = comp == 0 ? (T)(0.3 + 0.01 * (double)i) : comp == 1 ? gen_arg<T>(r, s.fn, (int)(r.next() % 9)) : (T)s.x;
                        y[i] = comp == 0 ? (T)1.25 : comp == 1 ? gen_arg<T>(r, s.fn, 2) : (T)s.y;
                    }
                    x[k] = (T)s.x;
                    y[k] = (T)s.y;
                    eval_lib<T>(L, s.fn, x.data(), MATHFN[s.fn].nin == 2 ? y.data() : nullptr, o0.data(), o1.data(), N);
                    st.evals++;
                    st.cell((unsigned)(si * 64 + k));
                    if (!special_ok<T>(s, o0[k]))
                        viol(S, "C12", std::string("special_") + MATHFN[s.fn].name, FT<T>::name(), L.arch, "unclassified",
                             "{\"x\":\"" + hexT((T)s.x) + "\"" + fmt(",\"x_value\":%.9g,\"y_value\":%.9g,\"expected\":\"%s\",\"expected_value\":%.9g", s.x, s.y, s.expect, s.v) + ",\"got\":\"" + hexT(o0[k]) + "\"" + fmt(",\"got_value\":%.17g,\"lane\":%zu,\"companions\":%d}", (double)o0[k], k, comp));
                    else if (st.samples.size() < 2 && k == 0 && comp == 0)
                        st.samples.push_back(fmt("{\"fn\":\"%s\",\"x\":%.9g,\"y\":%.9g,\"expected\":\"%s\",\"got\":%.9g}", MATHFN[s.fn].name, s.x, s.y, s.expect, (double)o0[k]));
                }
        }
    });
}

// domain sweep: stratified samples over every bit pattern of each out-of-domain region (uniform in the bit
// pattern, i.e. every binade and both region edges), every lane must be NaN
struct Region
{
    int fn;
    std::string name;
    int kind; // 0: x<0 (-0 excluded)  1: x<-1  2: |x|>1  3: x<1 (every negative incl. -0, and [+0,1))  4: pow(x<0 finite, y finite non-integer)
              // 5: x = NaN of any payload / sign / quiet bit (binary: y ordinary)   6: y = NaN, x ordinary
              // 7: x a negative integer (every binade up to -MAX; all floats beyond 2^P are integers), expected NaN (tgamma) or +inf (lgamma)
};
static std::vector<Region> make_regions()
{
    std::vector<Region> v = {
        { FN_LOG, "domain_log_negative", 0 }, { FN_LOG2, "domain_log2_negative", 0 }, { FN_LOG10, "domain_log10_negative", 0 }, { FN_SQRT, "domain_sqrt_negative", 0 },
        { FN_LOG1P, "domain_log1p_below_minus_one", 1 }, { FN_ASIN, "domain_asin_outside", 2 }, { FN_ACOS, "domain_acos_outside", 2 }, { FN_ATANH, "domain_atanh_outside", 2 },
        { FN_ACOSH, "domain_acosh_below_one", 3 }, { FN_POW, "domain_pow_negative_base", 4 },
    };
    v.push_back({ FN_TGAMMA, "pole_tgamma_negative_integer", 7 });
    v.push_back({ FN_LGAMMA, "pole_lgamma_negative_integer", 7 });
    for (int fn = FN_SQRT; fn <= FN_POW; ++fn)
    {
        v.push_back({ fn, std::string("nan_argument_") + MATHFN[fn].name, 5 });
        if (MATHFN[fn].nin == 2)
            v.push_back({ fn, std::string("nan_second_argument_") + MATHFN[fn].name, 6 });
    }
    return v;
}
static const std::vector<Region> REGIONS = make_regions();
template <class T>
static void plan_domains()
{
    using U = typename FT<T>::U;
    const U SIGN = (U)1 << (sizeof(T) * 8 - 1), INFB = bitsof((T)INFINITY), ONE = bitsof((T)1);
    const size_t nr = REGIONS.size();
    const long nblk = budget(16, 4096);
    parallel_for((uint64_t)(nr * (size_t)nblk), [&](uint64_t item, Stats& S)
                 {
        const Region& R = REGIONS[item % nr];
        const uint64_t b = item / nr;
        if (!selected(MATHFN[R.fn].name, FT<T>::name()))
            return;
        Rng r(mix(g.seed ^ 0xD0, item));
        // magnitude pattern range [lo, hi] of the region (sign chosen per element where both signs qualify)
        auto mag = [&](U lo, U hi) -> U
        {
            const U span = hi - lo + 1, w = span / (U)nblk ? span / (U)nblk : 1;
            const U base = lo + (U)b * w;
            U m = base + (U)r.below((uint64_t)w);
            return m > hi ? hi : m;
        };
        T x[4096], y[4096], o0[4096], o1[4096];
        for (size_t i = 0; i < 4096; ++i)
        {
            const bool edge = (i & 63) == 0; // every 64th element sits within 8 patterns of a region edge
            const U k = (U)r.below(8);
            y[i] = 0;
            switch (R.kind)
            {
            case 0: x[i] = frombits<T>(SIGN | (edge ? ((i & 64) ? (U)1 + k : INFB - k) : mag(1, INFB))); break;
            case 1: x[i] = frombits<T>(SIGN | (edge ? ((i & 64) ? ONE + 1 + k : INFB - k) : mag(ONE + 1, INFB))); break;
            case 2: x[i] = frombits<T>(((r.next() & 1) ? SIGN : 0) | (edge ? ((i & 64) ? ONE + 1 + k : INFB - k) : mag(ONE + 1, INFB))); break;
            case 3:
                if (r.next() & 1)
                    x[i] = frombits<T>(SIGN | (edge ? ((i & 64) ? k : INFB - k) : mag(0, INFB)));
                else
                    x[i] = frombits<T>(edge ? ((i & 64) ? k : ONE - 1 - k) : mag(0, ONE - 1));
                break;
            case 7:
            {
                T m = frombits<T>(edge ? ((i & 64) ? bitsof((T)(1 + k)) : INFB - 1 - k) : mag(ONE, INFB - 1));
                x[i] = -std::floor(m);
                break;
            }
            case 5:
            case 6:
            {
                // NaN patterns: magnitude in (INFB, SIGN) -- stratified like the others, so quiet and signalling, small and large payloads
                const T q = frombits<T>(((r.next() & 1) ? SIGN : 0) | (edge ? ((i & 64) ? INFB + 1 + k : (SIGN - 1) - k) : mag(INFB + 1, SIGN - 1)));
                // the ordinary operand: finite, non-zero, not 1 (pow(1, NaN) and pow(NaN, 0) are 1 in C99: not claimed either way)
                T w;
                do
                    w = (T)((r.next() & 1 ? -1.0 : 1.0) * std::ldexp(1.0 + r.unit(), (int)r.below(40) - 20));
                while (w == (T)1);
                x[i] = R.kind == 5 ? q : w;
                y[i] = R.kind == 5 ? w : q;
                break;
            }
            default:
            {
                x[i] = frombits<T>(SIGN | (edge ? ((i & 64) ? (U)1 + k : INFB - 1 - k) : mag(1, INFB - 1)));
                // a finite non-integer exponent: below 2^P in magnitude with a fractional part
                T yy;
                do
                {
                    int e = (int)r.below((uint64_t)FT<T>::P + 40) - 40;
                    yy = (T)std::ldexp(1.0 + r.unit(), e);
                } while (yy == std::floor(yy));
                y[i] = (r.next() & 1) ? -yy : yy;
            }
            }
        }
        for (const Lib& L : g.libs)
        {
            Stat& st = S.at("C12", R.name, FT<T>::name(), L.arch);
            const bool two_out = R.fn == FN_SINCOS;
            eval_lib<T>(L, R.fn, x, MATHFN[R.fn].nin == 2 ? y : nullptr, o0, o1, 4096);
            for (size_t i = 0; i < 4096; ++i)
            {
                st.evals++;
                if ((i & 15) == 0)
                {
                    int e;
                    (void)std::frexp((double)x[i], &e);
                    st.cell(R.kind >= 5 ? (unsigned)(bitsof(R.kind == 5 ? x[i] : y[i]) >> (sizeof(T) * 8 - 12)) | (unsigned)(i & 0xf0) << 8 : (unsigned)((x[i] < 0) << 12 | ((e + 2048) & 0xfff)));
                }
                const bool bad = (R.kind == 7 && R.fn == FN_LGAMMA) ? !(std::isinf(o0[i]) && o0[i] > 0) : (o0[i] == o0[i] || (two_out && o1[i] == o1[i]));
                if (bad)
                    viol(st, classify_domain<T>(R.fn, x[i]), [&]
                         { return "{\"x\":\"" + hexT(x[i]) + "\"" + fmt(",\"x_value\":%.17g,\"y_value\":%.17g,\"expected\":\"%s\"", (double)x[i], (double)y[i], (R.kind == 7 && R.fn == FN_LGAMMA) ? "+inf" : "nan") + ",\"got\":\"" + hexT(o0[i]) + "\"" + fmt(",\"got_value\":%.17g,\"index_in_block\":%zu}", (double)o0[i], i); });
                else if (st.samples.size() < 2 && i == 100)
                    st.samples.push_back("{\"x\":\"" + hexT(x[i]) + "\"" + fmt(",\"x_value\":%.9g,\"y_value\":%.9g", (double)x[i], (double)y[i]) + ",\"got\":\"" + hexT(o0[i]) + "\"}");
            }
        }
    });
}

// symmetry / identity relations on blocks of arguments (no reference needed)
static const int ODD_FNS[] = { FN_SIN, FN_TAN, FN_ASIN, FN_ATAN, FN_SINH, FN_TANH, FN_ASINH, FN_ATANH, FN_CBRT, FN_ERF };
static const int EVEN_FNS[] = { FN_COS, FN_COSH };
template <class T>
static bool same_or_nan(T a, T b) { return (a != a && b != b) || bitsof(a) == bitsof(b); }

template <class T>
static void relations_block(Stats& S, const T* x, size_t n, int layout, const std::function<bool(const Lib&)>& use_lib)
{
    std::vector<T> nx(n), a(n), b(n), c(n), d(n);
    for (size_t i = 0; i < n; ++i)
        nx[i] = frombits<T>(bitsof(x[i]) ^ ((typename FT<T>::U)1 << (sizeof(T) * 8 - 1))); // negation by the monitor, on the stored bits
    auto cellof = [&](T v)
    {
        int e;
        (void)std::frexp((double)v, &e);
        return (unsigned)(layout << 13 | (v < 0) << 12 | ((e + 2048) & 0xfff));
    };
    for (const Lib& L : g.libs)
    {
        if (!use_lib(L))
            continue;
        auto rel = [&](const char* name, int fn, const T* got, const T* want, bool negate_want, const char* what)
        {
            if (!selected(MATHFN[fn].name, FT<T>::name()))
                return;
            Stat& st = S.at("C12", name, FT<T>::name(), L.arch);
            for (size_t i = 0; i < n; ++i)
            {
                T w = negate_want ? frombits<T>(bitsof(want[i]) ^ ((typename FT<T>::U)1 << (sizeof(T) * 8 - 1))) : want[i];
                st.evals++;
                if ((i & 63) == 0)
                    st.cell(cellof(x[i]));
                if (!same_or_nan(got[i], w))
                    viol(S, "C12", name, FT<T>::name(), L.arch, "unclassified", "{\"x\":\"" + hexT(x[i]) + "\"" + fmt(",\"x_value\":%.17g,\"relation\":\"%s\"", (double)x[i], what) + ",\"lhs\":\"" + hexT(got[i]) + "\",\"rhs\":\"" + hexT(w) + "\"" + fmt(",\"layout\":%d}", layout));
                else if (st.samples.size() < 1 && i == 17)
                    st.samples.push_back("{\"x\":\"" + hexT(x[i]) + "\",\"lhs\":\"" + hexT(got[i]) + "\",\"rhs\":\"" + hexT(w) + "\",\"relation\":\"" + what + "\"}");
            }
        };
        for (int fn : ODD_FNS)
        {
            if (!selected(MATHFN[fn].name, FT<T>::name()))
                continue;
            eval_lib<T>(L, fn, x, nullptr, a.data(), nullptr, n);
            eval_lib<T>(L, fn, nx.data(), nullptr, b.data(), nullptr, n);
            rel((std::string("odd_") + MATHFN[fn].name).c_str(), fn, b.data(), a.data(), true, "f(-x) == -f(x)");
        }
        for (int fn : EVEN_FNS)
        {
            if (!selected(MATHFN[fn].name, FT<T>::name()))
                continue;
            eval_lib<T>(L, fn, x, nullptr, a.data(), nullptr, n);
            eval_lib<T>(L, fn, nx.data(), nullptr, b.data(), nullptr, n);
            rel((std::string("even_") + MATHFN[fn].name).c_str(), fn, b.data(), a.data(), false, "f(-x) == f(x)");
        }
        if (selected("sincos", FT<T>::name()))
        {
            eval_lib<T>(L, FN_SINCOS, x, nullptr, a.data(), b.data(), n);
            eval_lib<T>(L, FN_SIN, x, nullptr, c.data(), nullptr, n);
            eval_lib<T>(L, FN_COS, x, nullptr, d.data(), nullptr, n);
            rel("sincos_first_eq_sin", FN_SINCOS, a.data(), c.data(), false, "sincos(x).first == sin(x)");
            rel("sincos_second_eq_cos", FN_SINCOS, b.data(), d.data(), false, "sincos(x).second == cos(x)");
        }
        if (selected("fabs", FT<T>::name()))
        {
            eval_lib<T>(L, FN_FABS, x, nullptr, a.data(), nullptr, n);
            eval_lib<T>(L, FN_ABS, x, nullptr, b.data(), nullptr, n);
            rel("fabs_eq_abs", FN_FABS, a.data(), b.data(), false, "fabs(x) == abs(x)");
        }
        if (selected("rint", FT<T>::name()))
        {
            eval_lib<T>(L, FN_RINT, x, nullptr, a.data(), nullptr, n);
            eval_lib<T>(L, FN_NEARBYINT, x, nullptr, b.data(), nullptr, n);
            rel("rint_eq_nearbyint", FN_RINT, a.data(), b.data(), false, "rint(x) == nearbyint(x)");
        }
    }
}

static void run_C12()
{
    plan_specials<float>();
    plan_specials<double>();
    plan_domains<float>();
    plan_domains<double>();
    // float32: all patterns with x >= 0 (the relation itself supplies -x); thorough: every block on the class arches,
    // every 8th on all; quick: every 128th on all.  Two layouts.
    const uint64_t nblk = (1ull << 31) / 4096;
    const uint64_t stride_all = g.tier ? 8 : 128, stride_class = g.tier ? 1 : 128, off = g.seed % stride_all;
    struct Item
    {
        int layout;
        uint64_t blk;
    };
    std::vector<Item> items;
    for (int layout = 0; layout < 2; ++layout)
        for (uint64_t b = 0; b < nblk; ++b)
            if (b % stride_class == (stride_class == 1 ? 0 : off % stride_class))
                items.push_back({ layout, b });
    parallel_for(items.size(), [&](uint64_t i, Stats& S)
                 {
        float x[4096];
        f32_pattern_block(items[i].blk, 0, x);
        if (items[i].layout) // scrambled order inside the non-negative half
            for (uint32_t k = 0; k < 4096; ++k)
                x[k] = frombits<float>(((uint32_t)(items[i].blk * 4096 + k) * 0x9E3779B1u) & 0x7fffffffu);
        bool all = (items[i].blk % stride_all) == off;
        relations_block<float>(S, x, 4096, items[i].layout, [&](const Lib& L) { return all || is_class_arch(L.arch); }); });
    // doubles: generated samples (1e5 quick / 1e7 thorough per arch)
    long nb = budget(32, 2560);
    parallel_for((uint64_t)nb, [&](uint64_t i, Stats& S)
                 {
        double x[4096];
        gen_block<double>(g.seed + 77, FN_SIN, i, (int)(i & 1), x, nullptr, 4096);
        relations_block<double>(S, x, 4096, (int)(i & 1), all_libs); });
}

// ============================================================================ C13: lane independence of the elementary functions
// f(v)[k] versus f(broadcast(v[k]))[0]: both must satisfy the value oracle; bitwise differences are counted;
// all lanes of the broadcast result must be identical.
template <class T>
static void lane_block(Stats& S, int fn, uint64_t item)
{
    const bool bin = MATHFN[fn].nin == 2;
    Rng r(mix(g.seed ^ 0x13, item * 131 + (uint64_t)fn));
    for (const Lib& L : g.libs)
    {
        const size_t N = (size_t)L.lanes(sizeof(T) == 8);
        const size_t NB = 64; // batches per block
        std::vector<T> x(N * NB), y(N * NB), o0(N * NB), o1(N * NB), bx(N * NB), by(N * NB), b0(N * NB), b1(N * NB);
        Rng rr(mix(g.seed ^ 0x13, item * 131 + (uint64_t)fn)); // the same arguments for every architecture
        for (size_t j = 0; j < NB; ++j)
        {
            // companion sets: (0) all small, (1) one huge, (2) one NaN/inf, (3) mixed signs, (4) straddling switch points, (5) anything
            int cs = (int)((item + j) % 6);
            for (size_t i = 0; i < N; ++i)
            {
                T v;
                switch (cs)
                {
                case 0: v = gen_arg<T>(rr, fn, 2); break;
                case 1: v = gen_arg<T>(rr, fn, 2); break;
                case 2: v = gen_arg<T>(rr, fn, 1); break;
                case 3: v = gen_arg<T>(rr, fn, 1); break;
                case 4: v = gen_arg<T>(rr, fn, 4); break;
                default: v = gen_arg<T>(rr, fn, (int)(rr.next() % 9)); break;
                }
                x[j * N + i] = v;
                y[j * N + i] = gen_arg<T>(rr, fn, cs == 5 ? (int)(rr.next() % 9) : 2);
            }
            size_t h = rr.next() % N;
            if (cs == 1)
                x[j * N + h] = (T)std::ldexp(1.0 + rr.unit(), (int)(rr.next() % (sizeof(T) == 4 ? 120 : 1000)));
            if (cs == 2)
                x[j * N + h] = (rr.next() & 1) ? (T)NAN : ((rr.next() & 1) ? (T)INFINITY : (T)-INFINITY);
            size_t k = (item + j) % N; // the lane under test in this batch
            for (size_t i = 0; i < N; ++i)
            {
                bx[j * N + i] = x[j * N + k];
                by[j * N + i] = y[j * N + k];
            }
        }
        eval_lib<T>(L, fn, x.data(), bin ? y.data() : nullptr, o0.data(), o1.data(), N * NB);
        eval_lib<T>(L, fn, bx.data(), bin ? by.data() : nullptr, b0.data(), b1.data(), N * NB);
        for (int outi = 0; outi < MATHFN[fn].nout; ++outi)
        {
            const int jfn = fn == FN_SINCOS ? (outi ? FN_COS : FN_SIN) : fn;
            const std::string opname = fn == FN_SINCOS ? (outi ? "sincos.second" : "sincos.first") : MATHFN[fn].name;
            Stat& st = S.at("C13", opname, FT<T>::name(), L.arch);
            const T* o = outi ? o1.data() : o0.data();
            const T* b = outi ? b1.data() : b0.data();
            for (size_t j = 0; j < NB; ++j)
            {
                size_t k = (item + j) % N;
                T xv = x[j * N + k], yv = bin ? y[j * N + k] : (T)0;
                T in_batch = o[j * N + k], alone = b[j * N];
                st.evals++;
                st.cell((unsigned)(((item + j) % 6) * 64 + k));
                bool uniform = true;
                for (size_t i = 1; i < N; ++i)
                    if (!same_or_nan(b[j * N + i], alone))
                        uniform = false;
                if (!uniform)
                {
                    viol(S, "C13", opname, FT<T>::name(), L.arch, "broadcast_lanes_differ", "{\"x\":\"" + hexT(xv) + "\"" + fmt(",\"x_value\":%.17g}", (double)xv));
                    continue;
                }
                if (!same_or_nan(in_batch, alone))
                    st.bitdiff++;
                // special-value class must agree (NaN-ness, infinity, zero)
                if ((in_batch != in_batch) != (alone != alone) || (std::isinf(in_batch) != std::isinf(alone)) || (std::isinf(in_batch) && std::signbit(in_batch) != std::signbit(alone)))
                {
                    std::string comp = "[";
                    for (size_t i = 0; i < N; ++i)
                        comp += (i ? ",\"" : "\"") + hexT(x[j * N + i]) + "\"";
                    viol(S, "C13", opname, FT<T>::name(), L.arch, "unclassified", "{\"x\":\"" + hexT(xv) + "\"" + fmt(",\"x_value\":%.17g,\"lane\":%zu", (double)xv, k) + ",\"in_batch\":\"" + hexT(in_batch) + "\",\"alone\":\"" + hexT(alone) + "\",\"companions\":" + comp + "],\"why\":\"special-value class differs\"}");
                    continue;
                }
                if (!Val<T>::arg_ok(jfn, xv, yv))
                    continue;
                typename Val<T>::R ref = Val<T>::ref(jfn, xv, yv);
                double e1, e2, bd;
                const char* w1 = Val<T>::judge(jfn, xv, yv, in_batch, ref, e1, bd);
                const char* w2 = Val<T>::judge(jfn, xv, yv, alone, ref, e2, bd);
                if (w1 && !w2)
                { // wrong only among these companions: a lane-dependence defect
                    std::string comp = "[";
                    for (size_t i = 0; i < N; ++i)
                        comp += (i ? ",\"" : "\"") + hexT(x[j * N + i]) + "\"";
                    viol(S, "C13", opname, FT<T>::name(), L.arch, classify<T>(jfn, xv, yv), "{\"x\":\"" + hexT(xv) + "\"" + fmt(",\"x_value\":%.17g,\"lane\":%zu,\"in_batch_value\":%.17g,\"alone_value\":%.17g,\"reference\":%.21Lg,\"ulp_error_in_batch\":%.3f,\"ulp_error_alone\":%.3f,\"bound\":%.3f", (double)xv, k, (double)in_batch, (double)alone, (ld)ref, e1, e2, bd) + ",\"companions\":" + comp + "],\"why\":\"" + w1 + "\"}");
                }
                else if (st.samples.size() < 1 && j == 3)
                    st.samples.push_back("{\"x\":\"" + hexT(xv) + "\",\"in_batch\":\"" + hexT(in_batch) + "\",\"alone\":\"" + hexT(alone) + "\"" + fmt(",\"lane\":%zu}", k));
            }
        }
    }
}
static void run_C13()
{
    struct Item
    {
        int fn, dbl;
        uint64_t idx;
    };
    std::vector<Item> items;
    long nb = budget(40, 4000);
    for (int fn = 0; fn <= FN_POW; ++fn)
        for (int dbl = 0; dbl < 2; ++dbl)
            if (selected(MATHFN[fn].name, dbl ? "f64" : "f32"))
                for (long b = 0; b < nb; ++b)
                    items.push_back({ fn, dbl, (uint64_t)b });
    parallel_for(items.size(), [&](uint64_t i, Stats& S)
                 {
        if (items[i].dbl)
            lane_block<double>(S, items[i].fn, items[i].idx);
        else
            lane_block<float>(S, items[i].fn, items[i].idx); });
}

// ============================================================================ C14: bounded iteration counts and bounded time
static double thread_cpu_s()
{
    timespec ts;
    clock_gettime(CLOCK_THREAD_CPUTIME_ID, &ts);
    return (double)ts.tv_sec + 1e-9 * (double)ts.tv_nsec;
}
static std::atomic<int> g_heartbeat_fn(-1);
template <class T>
static void loop_block(Stats& S, int fn, const T* x, size_t n, int layout)
{
    // one batch per call so that the counter is per call; the hook leaves a loop after `limit` iterations
    const unsigned long limit = sizeof(T) == 8 ? 256 : 64;
    for (const Lib& L : g.libs)
    {
        const size_t N = (size_t)L.lanes(sizeof(T) == 8);
        Stat& st = S.at("C14", std::string("loop_iterations_") + MATHFN[fn].name, FT<T>::name(), L.arch);
        T o0[64], o1[64];
        for (size_t i = 0; i + N <= n; i += N)
        {
            L.loop_reset(limit);
            eval_lib<T>(L, fn, x + i, nullptr, o0, o1, N);
            unsigned long c = L.loop_count(), ex = L.loop_exceeded();
            st.evals++;
            if ((i & 1023) == 0)
            {
                int e;
                (void)std::frexp((double)x[i], &e);
                st.cell((unsigned)(layout << 13 | (x[i] < 0) << 12 | ((e + 2048) & 0xfff)));
            }
            if ((double)c > st.maxerr)
            {
                st.maxerr = (double)c;
                st.argmax = hexT(x[i]);
            }
            if (ex)
            {
                std::string lanes = "[";
                for (size_t k = 0; k < N; ++k)
                    lanes += (k ? ",\"" : "\"") + hexT(x[i + k]) + "\"";
                T worst = x[i];
                for (size_t k = 0; k < N; ++k)
                    if (std::fabs(x[i + k]) > std::fabs(worst) && x[i + k] == x[i + k])
                        worst = x[i + k];
                viol(S, "C14", std::string("loop_iterations_") + MATHFN[fn].name, FT<T>::name(), L.arch, "unclassified", "{\"lanes\":" + lanes + "]" + fmt(",\"largest_magnitude_lane\":%.9g,\"iterations_at_least\":%lu,\"limit\":%lu,\"layout\":%d}", (double)worst, c, limit, layout));
            }
        }
        L.loop_reset(0);
    }
}
// timing monitor: CPU time of each block evaluation, per (fn, arch); a block slower than 50x the median of its
// function is re-run three times alone and, if reproducible, reported with its arguments
struct TimeRec
{
    std::vector<float> t; // seconds per block
    std::vector<uint64_t> id;
};
static std::mutex g_time_mu;
static std::map<std::string, TimeRec> g_times; // key fn|type|arch

template <class T>
static void timed_block(int fn, const T* x, const T* y, size_t n, uint64_t id)
{
    std::vector<T> o0(n), o1(n);
    for (const Lib& L : g.libs)
    {
        double t0 = thread_cpu_s();
        eval_lib<T>(L, fn, x, y, o0.data(), o1.data(), n);
        double dt = thread_cpu_s() - t0;
        std::lock_guard<std::mutex> lk(g_time_mu);
        TimeRec& r = g_times[std::string(MATHFN[fn].name) + "|" + FT<T>::name() + "|" + L.arch];
        r.t.push_back((float)dt);
        r.id.push_back(id);
    }
}

static void run_C14()
{
    // (a) iteration counts of the data-dependent loops: tgamma / lgamma, float32 patterns (strided / exhaustive) and doubles
    {
        const uint64_t nblk = (1ull << 32) / 4096;
        const uint64_t stride = g.tier ? 16 : 512, off = g.seed % stride;
        struct Item
        {
            int fn, layout;
            uint64_t blk;
        };
        std::vector<Item> items;
        for (int fn : { FN_TGAMMA, FN_LGAMMA })
            if (selected(MATHFN[fn].name, "f32"))
                for (int layout = 0; layout < 2; ++layout)
                    for (uint64_t b = 0; b < nblk; ++b)
                        if (b % stride == off)
                            items.push_back({ fn, layout, b });
        parallel_for(items.size(), [&](uint64_t i, Stats& S)
                     {
            float x[4096];
            f32_pattern_block(items[i].blk, items[i].layout, x);
            loop_block<float>(S, items[i].fn, x, 4096, items[i].layout); },
                     [&](uint64_t i) { return fmt("%s<f32> on float32 pattern block %llu (first pattern 0x%08llx), layout %d", MATHFN[items[i].fn].name, (unsigned long long)items[i].blk, (unsigned long long)(items[i].blk * 4096), items[i].layout); });
        // doubles: generator streams + every binade (2^k, +-) + NaN/inf + mixed companions (one huge negative lane, others small)
        long nb = budget(64, 4096);
        struct DItem
        {
            int fn;
            uint64_t idx;
        };
        std::vector<DItem> ditems;
        for (int fn : { FN_TGAMMA, FN_LGAMMA })
            if (selected(MATHFN[fn].name, "f64"))
                for (long b = 0; b < nb; ++b)
                    ditems.push_back({ fn, (uint64_t)b });
        parallel_for(ditems.size(), [&](uint64_t i, Stats& S)
                     {
            double x[4096];
            Rng r(mix(g.seed, i + 4242));
            int mode = (int)(ditems[i].idx % 4);
            if (mode == 0)
                gen_block<double>(g.seed + 5, ditems[i].fn, ditems[i].idx, 1, x, nullptr, 4096);
            else if (mode == 1) // every binade, both signs, NaN / inf sprinkled
                for (int k = 0; k < 4096; ++k)
                {
                    double v = std::ldexp(1.0 + r.unit(), (int)(r.next() % 2098) - 1074);
                    if (r.next() & 1)
                        v = -v;
                    if ((r.next() & 255) == 0)
                        v = (r.next() & 1) ? NAN : ((r.next() & 1) ? INFINITY : -INFINITY);
                    x[k] = v;
                }
            else if (mode == 2) // one huge negative lane among small ones (the F14 trigger), and huge positives
                for (int k = 0; k < 4096; ++k)
                    x[k] = (k % 8 == (int)(ditems[i].idx % 8)) ? -std::ldexp(1.0 + r.unit(), 5 + (int)(r.next() % 1000)) : (r.unit() * 40.0 - 20.0);
            else
                for (int k = 0; k < 4096; ++k)
                    x[k] = (k % 5 == 0) ? std::ldexp(1.0 + r.unit(), (int)(r.next() % 1020)) : (r.unit() * 400.0 - 200.0);
            loop_block<double>(S, ditems[i].fn, x, 4096, mode); },
                     [&](uint64_t i) { return fmt("%s<f64> generated block %llu, mode %d (0 streams, 1 every binade, 2 one huge negative lane among small ones, 3 huge positives)", MATHFN[ditems[i].fn].name, (unsigned long long)ditems[i].idx, (int)(ditems[i].idx % 4)); });
    }
    // (b) timing of every function: blocks spread log-uniformly over the argument magnitudes
    {
        struct Item
        {
            int fn, dbl;
            uint64_t idx;
        };
        std::vector<Item> items;
        long nb = budget(48, 1024);
        for (int fn = 0; fn < FN_COUNT; ++fn)
        {
            if (fn > FN_POW && fn < FN_IPOW)
                continue;
            for (int dbl = 0; dbl < 2; ++dbl)
                if (selected(MATHFN[fn].name, dbl ? "f64" : "f32"))
                    for (long b = 0; b < nb; ++b)
                        items.push_back({ fn, dbl, (uint64_t)b });
        }
        auto make = [&](const Item& it, float* xf, float* yf, double* xd, double* yd)
        {
            // each block holds one magnitude class so that a slow class stands out: exponent chosen from the block index
            Rng r(mix(g.seed ^ 0x77, it.idx * 977 + (uint64_t)it.fn));
            const int emax = it.dbl ? 1023 : 127, emin = it.dbl ? -1022 : -126;
            int e = emin + (int)((it.idx * 2654435761ull) % (uint64_t)(emax - emin + 1));
            bool special = (it.idx % 16) == 15;
            for (int k = 0; k < 1024; ++k)
            {
                double v = std::ldexp(1.0 + r.unit(), e);
                if (r.next() & 1)
                    v = -v;
                if (special)
                    v = (k & 3) == 0 ? NAN : (k & 3) == 1 ? INFINITY : (k & 3) == 2 ? -INFINITY : 0.0;
                double w = std::ldexp(1.0 + r.unit(), (int)(r.next() % 40) - 20);
                if (it.fn >= FN_FMOD)
                { // second operands over the whole exponent range (huge and tiny quotients x/y), both signs, and the specials
                    if (it.idx & 1)
                        w = std::ldexp(1.0 + r.unit(), emin + (int)(r.next() % (uint64_t)(emax - emin + 1)));
                    if (r.next() & 1)
                        w = -w;
                    if (special || (it.idx % 16) == 7)
                        w = ((k >> 2) & 3) == 0 ? 0.0 : ((k >> 2) & 3) == 1 ? INFINITY : ((k >> 2) & 3) == 2 ? NAN : -INFINITY;
                }
                if (it.fn == FN_IPOW)
                { // integer exponents of every magnitude and both signs, incl. INT_MIN / INT_MAX; moderate bases
                    int kbit = (int)(it.idx % 32);
                    double mag = kbit == 31 ? 2147483648.0 : (double)((1u << kbit) | (uint32_t)(r.next() & ((1u << kbit) - 1)));
                    w = ((it.idx / 32) & 1) ? -mag : std::fmin(mag, 2147483520.0);
                    v = (k & 1) ? 1.0 + (r.unit() - 0.5) * 1e-3 : -(0.5 + r.unit());
                }
                if (it.dbl)
                {
                    xd[k] = v;
                    yd[k] = w;
                }
                else
                {
                    xf[k] = (float)v;
                    yf[k] = (float)w;
                }
            }
        };
        parallel_for(items.size(), [&](uint64_t i, Stats&)
                     {
            float xf[1024], yf[1024];
            double xd[1024], yd[1024];
            make(items[i], xf, yf, xd, yd);
            bool bin = MATHFN[items[i].fn].nin == 2;
            g_heartbeat_fn = items[i].fn;
            if (items[i].dbl)
                timed_block<double>(items[i].fn, xd, bin ? yd : nullptr, 1024, i);
            else
                timed_block<float>(items[i].fn, xf, bin ? yf : nullptr, 1024, i); },
                     [&](uint64_t i)
                     {
                         float xf[1024], yf[1024];
                         double xd[1024], yd[1024];
                         make(items[i], xf, yf, xd, yd);
                         return fmt("%s<%s> timed block %llu: x[0]=%.9g y[0]=%.9g x[1]=%.9g", MATHFN[items[i].fn].name, items[i].dbl ? "f64" : "f32", (unsigned long long)items[i].idx,
                                    items[i].dbl ? xd[0] : (double)xf[0], items[i].dbl ? yd[0] : (double)yf[0], items[i].dbl ? xd[1] : (double)xf[1]);
                     });
        // analysis
        for (auto& kv : g_times)
        {
            TimeRec& r = kv.second;
            std::vector<float> s = r.t;
            std::sort(s.begin(), s.end());
            float med = s[s.size() / 2];
            size_t p1 = kv.first.find('|'), p2 = kv.first.rfind('|');
            std::string fnname = kv.first.substr(0, p1), type = kv.first.substr(p1 + 1, p2 - p1 - 1), arch = kv.first.substr(p2 + 1);
            Stat& st = g_stats.at("C14", "block_time_" + fnname, type, arch);
            st.evals += (long)r.t.size();
            for (size_t k = 0; k < r.t.size(); ++k)
            {
                st.cell((unsigned)(r.id[k] & 0xffff));
                if (r.t[k] > 50 * med && r.t[k] > 2e-3f)
                {
                    // re-run alone, three times
                    const Item& it = items[r.id[k]];
                    float xf[1024], yf[1024];
                    double xd[1024], yd[1024];
                    make(it, xf, yf, xd, yd);
                    bool bin = MATHFN[it.fn].nin == 2;
                    const Lib* L = nullptr;
                    for (const Lib& l : g.libs)
                        if (l.arch == arch)
                            L = &l;
                    double best = 1e9;
                    for (int rep = 0; rep < 3 && L; ++rep)
                    {
                        std::vector<float> of(2048);
                        std::vector<double> od(2048);
                        double t0 = thread_cpu_s();
                        if (it.dbl)
                            L->eval64(it.fn, xd, bin ? yd : nullptr, od.data(), od.data() + 1024, 1024);
                        else
                            L->eval32(it.fn, xf, bin ? yf : nullptr, of.data(), of.data() + 1024, 1024);
                        best = std::min(best, thread_cpu_s() - t0);
                    }
                    if (best > 50 * med && best > 2e-3)
                        viol(g_stats, "C14", "block_time_" + fnname, type, arch, "unclassified", fmt("{\"block_seconds\":%.6f,\"median_block_seconds\":%.9f,\"ratio\":%.0f,\"first_argument\":%.9g}", best, (double)med, best / med, it.dbl ? xd[0] : (double)xf[0]));
                }
            }
            if (st.samples.empty())
                st.samples.push_back(fmt("{\"median_block_seconds\":%.9f,\"max_block_seconds\":%.9f,\"blocks\":%zu}", (double)med, (double)s.back(), s.size()));
        }
    }
}

// ============================================================================ main
int main(int argc, char** argv)
{
    std::vector<std::string> libpaths;
    for (int i = 1; i < argc; ++i)
    {
        std::string a = argv[i];
        auto val = [&]() -> const char*
        { return (i + 1 < argc) ? argv[++i] : ""; };
        if (a == "--seed")
            g.seed = strtoull(val(), nullptr, 0);
        else if (a == "--tier")
            g.tier = strcmp(val(), "thorough") == 0;
        else if (a == "--out")
            g.fd = open(val(), O_WRONLY | O_CREAT | O_TRUNC, 0644);
        else if (a == "--prop")
            g.prop = val();
        else if (a == "--op")
            g.only_op = val();
        else if (a == "--type")
            g.only_type = val();
        else if (a == "--scale")
            g.scale = atof(val());
        else if (a == "--threads")
            g.nthreads = (unsigned)atoi(val());
        else if (a == "--libs")
        {
            for (++i; i < argc; ++i)
                libpaths.push_back(argv[i]);
        }
    }
    if (g.fd < 0)
        return 2;
    for (auto& p : libpaths)
    {
        void* h = dlopen(p.c_str(), RTLD_NOW | RTLD_LOCAL);
        if (!h)
        {
            emit("{\"t\":\"inconclusive\",\"why\":" + jstr(std::string("dlopen failed: ") + dlerror()) + "}");
            return 2;
        }
        Lib L;
        L.h = h;
        L.arch = ((vunit_arch_t)dlsym(h, "vunit_arch"))();
        L.lanes = (vunit_lanes_t)dlsym(h, "vunit_lanes");
        L.eval32 = (vunit_eval32_t)dlsym(h, "vunit_eval32");
        L.eval64 = (vunit_eval64_t)dlsym(h, "vunit_eval64");
        L.loop_reset = (vunit_loop_reset_t)dlsym(h, "vunit_loop_reset");
        L.loop_count = (vunit_loop_count_t)dlsym(h, "vunit_loop_count");
        L.loop_exceeded = (vunit_loop_exceeded_t)dlsym(h, "vunit_loop_exceeded");
        if (!L.lanes || !L.eval32 || !L.eval64 || !L.loop_reset)
        {
            emit("{\"t\":\"inconclusive\",\"why\":\"missing symbol in " + p + "\"}");
            return 2;
        }
        g.libs.push_back(L);
    }
    emit(fmt("{\"t\":\"start\",\"arch\":\"*\",\"seed\":%llu,\"tier\":%d,\"libs\":%zu}", (unsigned long long)g.seed, g.tier, g.libs.size()));
    if (g.prop == "C10")
        run_C10();
    else if (g.prop == "C11")
        run_C11();
    else if (g.prop == "C12")
        run_C12();
    else if (g.prop == "C13")
        run_C13();
    else if (g.prop == "C14")
        run_C14();
    flush_stats(g_stats);
    emit("{\"t\":\"done\"}");
    return 0;
}
