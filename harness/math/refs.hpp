// Reference functions (double for float32 arguments, long double and __float128 for double
// arguments) and the frozen accuracy bounds of DESIGN.md section 8.
#pragma once
#include "runner_common.hpp"

inline double ref_d(int fn, double x, double y)
{
    switch (fn)
    {
    case FN_SQRT: return std::sqrt(x);
    case FN_EXP: return std::exp(x);
    case FN_EXP2: return std::exp2(x);
    case FN_EXP10: return ::exp10(x);
    case FN_EXPM1: return std::expm1(x);
    case FN_LOG: return std::log(x);
    case FN_LOG2: return std::log2(x);
    case FN_LOG10: return std::log10(x);
    case FN_LOG1P: return std::log1p(x);
    case FN_SIN: return std::sin(x);
    case FN_COS: return std::cos(x);
    case FN_TAN: return std::tan(x);
    case FN_ASIN: return std::asin(x);
    case FN_ACOS: return std::acos(x);
    case FN_ATAN: return std::atan(x);
    case FN_SINH: return std::sinh(x);
    case FN_COSH: return std::cosh(x);
    case FN_TANH: return std::tanh(x);
    case FN_ASINH: return std::asinh(x);
    case FN_ACOSH: return std::acosh(x);
    case FN_ATANH: return std::atanh(x);
    case FN_CBRT: return std::cbrt(x);
    case FN_ERF: return std::erf(x);
    case FN_ERFC: return std::erfc(x);
    case FN_TGAMMA: return std::tgamma(x);
    case FN_LGAMMA:
    {
        int sg;
        return ::lgamma_r(x, &sg);
    }
    case FN_ATAN2: return std::atan2(x, y);
    case FN_HYPOT: return std::hypot(x, y);
    case FN_POW: return std::pow(x, y);
    }
    return NAN;
}
inline ld ref_l(int fn, ld x, ld y)
{
    switch (fn)
    {
    case FN_SQRT: return sqrtl(x);
    case FN_EXP: return expl(x);
    case FN_EXP2: return exp2l(x);
    case FN_EXP10: return ::exp10l(x);
    case FN_EXPM1: return expm1l(x);
    case FN_LOG: return logl(x);
    case FN_LOG2: return log2l(x);
    case FN_LOG10: return log10l(x);
    case FN_LOG1P: return log1pl(x);
    case FN_SIN: return sinl(x);
    case FN_COS: return cosl(x);
    case FN_TAN: return tanl(x);
    case FN_ASIN: return asinl(x);
    case FN_ACOS: return acosl(x);
    case FN_ATAN: return atanl(x);
    case FN_SINH: return sinhl(x);
    case FN_COSH: return coshl(x);
    case FN_TANH: return tanhl(x);
    case FN_ASINH: return asinhl(x);
    case FN_ACOSH: return acoshl(x);
    case FN_ATANH: return atanhl(x);
    case FN_CBRT: return cbrtl(x);
    case FN_ERF: return erfl(x);
    case FN_ERFC: return erfcl(x);
    case FN_TGAMMA: return tgammal(x);
    case FN_LGAMMA:
    {
        int sg;
        return ::lgammal_r(x, &sg);
    }
    case FN_ATAN2: return atan2l(x, y);
    case FN_HYPOT: return hypotl(x, y);
    case FN_POW: return powl(x, y);
    }
    return NAN;
}
inline f128 ref_q(int fn, f128 x, f128 y)
{
    switch (fn)
    {
    case FN_SQRT: return sqrtq(x);
    case FN_EXP: return expq(x);
    case FN_EXP2: return exp2q(x);
    case FN_EXP10: return powq((f128)10, x);
    case FN_EXPM1: return expm1q(x);
    case FN_LOG: return logq(x);
    case FN_LOG2: return log2q(x);
    case FN_LOG10: return log10q(x);
    case FN_LOG1P: return log1pq(x);
    case FN_SIN: return sinq(x);
    case FN_COS: return cosq(x);
    case FN_TAN: return tanq(x);
    case FN_ASIN: return asinq(x);
    case FN_ACOS: return acosq(x);
    case FN_ATAN: return atanq(x);
    case FN_SINH: return sinhq(x);
    case FN_COSH: return coshq(x);
    case FN_TANH: return tanhq(x);
    case FN_ASINH: return asinhq(x);
    case FN_ACOSH: return acoshq(x);
    case FN_ATANH: return atanhq(x);
    case FN_CBRT: return cbrtq(x);
    case FN_ERF: return erfq(x);
    case FN_ERFC: return erfcq(x);
    case FN_TGAMMA: return tgammaq(x);
    case FN_LGAMMA: return lgammaq(x) ; // log|Gamma|
    case FN_ATAN2: return atan2q(x, y);
    case FN_HYPOT: return hypotq(x, y);
    case FN_POW: return powq(x, y);
    }
    return nanq("");
}

// frozen bounds (ulp of the result type) -- DESIGN.md section 8
struct Bound
{
    double f32, f64;
};
static const Bound BOUNDS[FN_COUNT] = {
    /*sqrt*/ { 0.5, 0.5 }, /*exp*/ { 2.0, 1.5 }, /*exp2*/ { 2.0, 2.0 }, /*exp10*/ { 2.0, 2.5 }, /*expm1*/ { 2.5, 2.5 },
    /*log*/ { 1.5, 1.5 }, /*log2*/ { 2.5, 1.5 }, /*log10*/ { 1.5, 1.5 }, /*log1p*/ { 1.5, 1.5 },
    /*sin*/ { 3.0, 3.0 }, /*cos*/ { 3.0, 3.0 }, /*tan*/ { 4.5, 4.0 }, /*asin*/ { 3.0, 2.0 }, /*acos*/ { 2.0, 2.0 }, /*atan*/ { 3.0, 3.0 },
    /*sinh*/ { 3.5, 2.5 }, /*cosh*/ { 3.5, 2.5 }, /*tanh*/ { 2.0, 2.0 }, /*asinh*/ { 4.5, 2.5 }, /*acosh*/ { 3.0, 3.0 }, /*atanh*/ { 2.5, 2.5 },
    /*cbrt*/ { 1.0, 1.0 }, /*erf*/ { 3.5, 96 }, /*erfc*/ { 128, 48 }, /*tgamma*/ { 14, 16 }, /*lgamma*/ { 8, 8 },
    /*sincos*/ { 3.0, 3.0 }, /*atan2*/ { 3.5, 3.5 }, /*hypot*/ { 2.0, 2.0 }, /*pow*/ { 4.0, 4.0 },
    { 0, 0 }, { 0, 0 }, { 0, 0 }, { 0, 0 }, { 0, 0 }
    // FN_FMOD ... : C14-only functions, no accuracy bound (value-initialised)
};
// the bound that applies to one evaluation (some are piecewise in the argument)
template <class T>
inline double bound_for(int fn, T x, T y, ld ref)
{
    const bool dbl = sizeof(T) == 8;
    double b = dbl ? BOUNDS[fn].f64 : BOUNDS[fn].f32;
    if (fn == FN_POW)
        return 4.0 * (1.0 + std::fabs((double)y * std::log(std::fabs((double)x))));
    if (fn == FN_ERFC && dbl)
    {
        double ax = (double)x;
        if (ax < 2.2)
            return 48;
        if (ax < 6)
            return 65536.0;
        if (ax < 15)
            return 8388608.0;
        return 134217728.0;
    }
    if (fn == FN_TGAMMA)
    {
        // float: the property itself states 16 ulp on |x| <= 33 and 256 ulp beyond (the Stirling reflection path
        // is only accurate to ~45 ulp); double: the table of DESIGN.md section 8
        if (std::fabs((double)x) > 33)
            return dbl ? 1024 : 256;
        return dbl ? b : 16;
    }
    (void)ref;
    return b;
}
// lgamma's error is measured in ulps of max(|result|, 1)
inline ld scale_ref(int fn, ld ref)
{
    if (fn == FN_LGAMMA && fabsl(ref) < 1)
        return 1;
    return ref;
}

// named predicates for the open known findings (first match wins); "unclassified" otherwise
template <class T>
inline const char* classify(int fn, T x, T y, double err = 0)
{
    (void)y;
    const bool dbl = sizeof(T) == 8;
    // F18a: q*sin(pi q) underflows for |x| below 2^-64, log(0) = inf (exact value 44 .. 87)
    if (fn == FN_LGAMMA && !dbl && x < 0 && x > (T)-5.421010862427522e-20)
        return "lgamma_small_negative";
    // F28: within 2^-8 of a negative integer the reflection formula cancels (result crosses zero): 8 .. 13 ulp of max(|r|,1)
    if (fn == FN_LGAMMA && !dbl && x < (T)-2 && std::fabs((double)x - std::nearbyint((double)x)) < 0.00390625)
        return "lgamma_near_negative_integer";
    if (fn == FN_TGAMMA && !dbl && x <= (T)-35.9999 && x >= (T)-36.0001)
        return "tgamma_reflection_underflow";
    if (fn == FN_TGAMMA && dbl && x < (T)-171.6)
        return "tgamma_reflection_underflow";
    // F30: the double Stirling/reflection path is accurate to ~1100 ulp on (-171.6, -108]; the frozen table says 1024
    // (its design-time maximum, 637, was under-sampled).  Errors beyond 2048 ulp are NOT part of the finding.
    if (fn == FN_TGAMMA && dbl && x <= (T)-108 && err <= 2048.0)
        return "tgamma_stirling_accuracy";
    // F29: double sin/cos/tan for |x| < 20*pi within 2^-26 of a multiple of pi/2: the medium-range Cody-Waite reduction
    // keeps ~100 bits of pi/2, so the tiny result (< 1.5e-8) carries a relative error of up to 2.5e4 ulp
    if ((fn == FN_SIN || fn == FN_COS || fn == FN_TAN) && dbl && std::fabs((double)x) < 64.0)
    {
        long double r = remainderl((long double)x, 1.57079632679489661923132169163975144L);
        if (fabsl(r) < 1.4901161193847656e-08L)
            return "trig_reduction_near_half_pi_multiple";
    }
    return "unclassified";
}

// classes for the C12 domain sweep (named predicates of open findings would go here)
template <class T>
inline const char* classify_domain(int fn, T x)
{
    (void)fn;
    (void)x;
    return "unclassified";
}

// algorithm switch points and thresholds of the current kernels (dense windows are sampled around them;
// the log-uniform and binade streams cover everything else)
static const double SWITCH_POINTS[] = {
    0.0, 0.5, 0.65, 0.75, 1.0, 1.25, 1.5, 2.0, 2.2, 2.5, 3.0, 6.0, 6.5, 13.0, 15.0, 28.0, 33.0, 34.0, 35.04, 171.6, 172.0,
    0.78539816339744831, 1.5707963267948966, 3.1415926535897931, 62.831853071795862, 411774.0, 281474976710656.0 * 0.0 + 210828714.0,
    88.3762626647949, 88.72283905206835, 87.33654475055310, 103.972, 127.0, 128.0, 37.9, 38.53, 709.78, 708.39, 745.13, 1022.0, 1023.0, 1024.0, 307.65, 308.25,
    0.41421356237309503, 2.414213562373095, 0.66, 1e-4, 1e-8, 4.5e-5, 2.98e-8, 1.49e-8, 9.5e-7, 8388608.0, 16777216.0, 4503599627370496.0, 9007199254740992.0
};
